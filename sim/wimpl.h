// World: scheduler + clients + oracles. Private to world_*.cpp
#pragma once
#include "kernel.h"
#include <queue>

struct WsInFrame { bool fin; int rsv; int opcode; bool masked; uint64_t len; std::string payload; int lenenc; };
enum WsClass { W_NONE = 0, W_TEXT, W_PING, W_PONG, W_CLOSE_OK, W_1002, W_1007, W_1002_OR_1007, W_FRAG, W_BINARY };

struct Input {
	enum T { MSG, DROP, GONE, TIMER, HS, WSFRAME, CONN } t = MSG;   // CONN: accepted connection (only recorded for the state oracle after injected allocation failures)
	int c = -1; std::string text; int fd = -1; WsInFrame wf; std::string why; int wscls = 0;
};

// splits the bytes the daemon has consumed from one connection into protocol units
struct InDec {
	bool ws = false; int phase = 0; std::string buf; bool dead = false; size_t maxmsg = 512;
	void feed(const char *p, size_t n, int c, std::vector<Input> &out);
};

// splits the bytes the kernel accepted from the daemon into frames
struct OutDec {
	bool ws = false; bool http_done = false; std::string buf; bool broken = false;
	void feed(const char *p, size_t n, std::vector<Frame> &out);
};

struct C19;

struct C10State {
	std::deque<std::string> frames; size_t base = 0, generated = 0;   // frames[k] is generated frame number base+k
	std::vector<std::pair<size_t, size_t>> states{{0, 0}};            // NFA: (frame index, offset); offset 0 = at the boundary before that frame
	std::vector<std::string> owed; bool owed_valid = false; bool dead = false;
	std::string cur_P, cur_F; size_t accepted_total = 0; std::string suspect;
	const std::string &frame(size_t i) const { return frames[i - base]; }
};

struct Client {
	int idx = -1; std::string transport; std::string origin_ip; bool origin_local = false; std::string un_path;
	int fd = -1;                       // daemon-side descriptor once accepted
	bool connected = false, accepted = false, daemon_closed = false, client_closed = false;
	// towards the daemon
	std::string rx; size_t rx_off = 0; bool eof = false; int rx_err = 0; bool hup = false; size_t rdcap = 0; bool err_reported = false;
	// from the daemon
	std::string out; int64_t space = -1; size_t wcap = 0; bool wboundary = false; uint64_t wcount = 0; bool blocked = false; int wr_err = 0; bool wr_fail_after_close = false; int wr_ok_left = 0; int cfg_fail_at = 0, cfg_fail_errno = 0, epoll_add_errno = 0; bool c19_broken_by_fault = false; void c19_set_lenient();
	uint64_t write_attempts_turn = 0;
	InDec in; OutDec od; C10State c10; C19 *c19 = nullptr;
	// oracle state
	std::deque<Exp> expq; bool faulty = false; bool answer_write_failed = false; bool closing = false; bool no_expect = false;
	bool hs_sent = false, hs_ok = false;
	bool ws_in_frag = false; bool close_frame_seen = false; int close_frame_status = 0; bool http_req_complete = false, http_err_seen = false;
	JV policy = JV::obj();
	std::map<std::string, std::map<std::string, JV>> replica;  // fetch id (dumped) -> path -> value
	std::map<std::string, int> replica_state;                   // fetch id -> 0 requested,1 active,2 unfetched
	std::map<std::string, int> ledger;                          // id dump -> outstanding count (ledger mode)
	std::map<std::string, long> ledger_turn;                    // id dump -> event-loop turn in which the request was consumed
	uint64_t frames_out = 0, msgs_in = 0, reply_serial = 0;
	bool is_canary = false; int canary_step = 0;
	bool msg_done_turn = false;                       // faulty peers: at most one complete message per event-loop turn
	int chunks_queued = 0; uint64_t last_chunk_t = 0;   // keeps a connection's bytes in order
};

struct Event {
	uint64_t t, seq; int type; int a; long b; std::string s;
	bool operator<(const Event &o) const { return t != o.t ? t > o.t : seq > o.seq; }
};
enum { EV_OP = 1, EV_CHUNK, EV_TIMER, EV_REPLY };

struct BatchEntry { int fd; uint32_t mask; bool fed; };

struct World : KernelHooks, ModelHost {
	Plan plan; Rng rng; uint64_t now = 0; uint64_t evseq = 0;
	std::priority_queue<Event> q;
	std::vector<Client> clients;
	std::map<int, int> plan2client;    // plan-level client index -> clients[] index
	Model model;
	std::string mode = "exact";        // exact | ledger | none
	RunResult res; Hasher trace;
	size_t next_op = 0; bool holding = false; int held = 0;
	int phase = 0;                     // 0 plan, 1 drain, 2 canary, 3 close all, 4 idle check, 5 sigterm sent, 6 done
	bool sigterm_sent = false; int epoll_after_sigterm = 0; long sigterm_at_call = -1; long calls_in_turn = 0;
	std::deque<Input> pend;
	std::vector<BatchEntry> batch; uint64_t batch_no = 0;
	bool started = false;              // first epoll_wait seen: baseline recorded
	// baselines (C07)
	size_t base_alloc = 0; uint64_t base_live_blocks = 0, base_live_bytes = 0; int base_peers = 0; int base_open_fds = 0; int base_epoll = 0;
	std::vector<int> base_fds; uint64_t base_last_seq = 0;
	std::vector<std::string> logs;
	std::vector<std::string> secrets;  // passwords that must never be written or logged
	std::map<int, int> matched_optional; // decision -> count
	uint64_t step_cap = 200000, turn_call_cap = 2000000;
	bool canary_enabled = true, canary_done = false, canary_ok = false;
	int end_mode = 0;                  // 0 close all then sigterm, 1 sigterm with clients connected
	double batch_shuffle_p = 0.0;
	bool in_daemon = false;
	bool done = false;
	bool debug = false;
	void dbg(const char *fmt, ...) __attribute__((format(printf, 2, 3)));

	// KernelHooks
	int on_epoll_wait(int epfd, void *events, int maxevents, int timeout) override;
	long on_read(KFd &k, void *buf, size_t n) override;
	long on_writev(KFd &k, const struct iovec *iov, int cnt) override;
	int on_accept(KFd &k, void *addr, unsigned *addrlen) override;
	void on_close(KFd &k) override;
	void on_timer_set(KFd &k, uint64_t ns) override;
	void on_timer_create_failed() override;
	int syscall_fault(const char *name) override;
	int startup_fail_at = 0, startup_calls = 0;   // fault: the n-th failable system call of the start-up sequence fails
	void on_syscall(const char *name) override;
	void hygiene(const std::string &rule, const std::string &detail) override;
	void on_log(int pri, const std::string &line) override;
	void on_file_op(const char *op, long result) override;
	void on_alloc_fail(uint64_t index) override;
	long fault_turn = -1; uint64_t faults_fired = 0; long canary_turn = -1;
	// state oracle after injected allocation failures (world_shadow.cpp): the element image must stay explicable by the reference model with
	// every request that was being processed when an allocation failed either carried out or not
	struct Entitled { int c; JV fetchid; std::string event, path; bool check_value; uint64_t vhash; };
	uint64_t model_version = 0, snap_version = ~0ULL;   // snapshots are only taken when something happened since the last one (a connection read byte by byte makes hundreds of reads per message)
	struct Cand { Model m; bool alive = true; int parent = 0; std::vector<Entitled> entitled; bool entitled_overflow = false; std::map<std::string, int> auth; /* outcome of authenticate requests in this alternative: 1 accepted, 0 refused */ };
	size_t passwd_in_ledger_mode = 0; int cur_read_client = -1; int lasting_accept_failures_turn = 0;
	void write_failed_for(Client &cl, const std::string &frame);
	std::map<std::string, uint64_t> shadow_auth_seen;   // authenticate requests consumed after a failed allocation -> number of failures so far
	void shadow_check_auth(Client &cl, const Frame &f);
	struct PendingNotify { int c; Frame f; };
	std::vector<PendingNotify> shadow_unexplained;   // notifications no alternative explains yet (the end of a connection may still do so within this turn)
	void shadow_check_notify(Client &cl, const Frame &f);
	bool shadow_explain_notify(int c, const Frame &f);
	void shadow_settle_unexplained(bool final);
	struct ShadowGet { std::vector<int> rc; std::vector<JV> sets; bool ambiguous = false; };
	bool shadow_enabled = false, shadow_active = false, shadow_undecidable = false, shadow_probe_sent = false; std::string shadow_why;
	std::vector<Cand> cands, snap_cands; std::vector<Input> since_snap;
	std::map<std::pair<int, std::string>, ShadowGet> shadow_gets, snap_gets;
	uint64_t shadow_checks = 0;
	void shadow_mark();                       // the daemon starts handling a new event: what follows is what a failing allocation can affect
	void shadow_log(const Input &in);         // an input reached the model (exact mode) or the candidates (afterwards)
	void shadow_fork();                       // an allocation has just been made to fail
	void shadow_apply(std::vector<Cand> &cs, const Input &in, bool fork);
	void shadow_check_get(Client &cl, const Frame &f);
	void shadow_give_up(const std::string &why);
	bool shadow_send_probe();
	bool reload_checked = false;
	std::vector<JV> pw_changes;          // password changes the reference model applied, in order (C20)
	void password_changed(const std::string &user, const std::string &oldpw, const std::string &newpw, bool tentative) override;
	void password_resolved(int index, bool applied) override;
	int password_changes() override { return (int)pw_changes.size(); }
	// ModelHost
	void expect(int c, const Exp &e) override;
	uint64_t vnow() override { return now; }
	void probe(const std::string &n) override { res.st.probe(n); }
	void violation(const std::string &prop, const std::string &rule, const std::string &detail) override;
	void harness_error(const std::string &what) override;
	void fetch_changed(int c, const JV &id) override { if (c >= 0 && c < (int)clients.size()) clients[c].replica.erase(id.dump()); }
	void begin_termination();
	bool observable(int c) override { if (c < 0 || c >= (int)clients.size()) return false; Client &cl = clients[c]; return !(cl.no_expect || cl.faulty || cl.closing || cl.daemon_closed); }

	// scheduler
	void schedule(uint64_t t, int type, int a, long b = 0, const std::string &s = "");
	void exec_event(const Event &e);
	void exec_op(const Op &op);
	void deliver_bytes(Client &cl, const std::string &bytes);
	void send_from_client(Client &cl, const std::string &bytes, const JV *seg, uint64_t gap, uint64_t uid);
	int compose_batch(void *events, int maxevents);
	bool any_pending();
	void turn_end();
	void quiescent_point();
	bool next_phase();
	void finish(int exit_status);
	[[noreturn]] void bail();
	// oracle
	void feed_input(const Input &in);
	void flush_pending();
	bool feed_one_pending();
	void feed_batch_errors_before(int fd);
	bool feed_next_batch_error();
	void on_frames(Client &cl, std::vector<Frame> &fr);
	void on_frame(Client &cl, const Frame &f);
	void on_ws_close_frame(Client &cl, const Frame &f);
	void c10_offer(Client &cl, const struct iovec *iov, int cnt);
	void c10_result(Client &cl, long accepted, int err);
	void c10_accept(Client &cl, const char *p, size_t n);
	void c10_quiescent();
	void c10_turn_end();
	void c19_on_handshake_response(Client &cl, const Frame &f);
	void c19_send(Client &cl, const Op &op);
	void c19_on_frame(Client &cl, const Frame &f);
	void c19_quiescent();
	int classify_ws(Client &cl, const WsInFrame &wf);
	bool wsstrict = false;
	int last_accepted = -1; int epoll_intr = 0;   // fault: epoll_wait is interrupted by a signal that is not the termination signal
	int last_fed_client = -1; int presumed_drop = -1; std::string presumed_prop, presumed_rule, presumed_detail;
	bool try_match(Client &cl, const Frame &f, std::string &why);
	bool match_close(Client &cl);
	void after_match(Client &cl, const Exp &e, const Frame &f);
	void resolve_silent_decisions();
	void check_queues_empty(const char *when);
	void update_replica(Client &cl, const Frame &f);
	void check_replicas();
	void ledger_request(Client &cl, const std::string &text);
	void ledger_frame(Client &cl, const Frame &f);
	void client_reaction(Client &cl, const Frame &f);
	void record_baseline();
	void check_idle_baseline();
	void check_exit();
	void scan_secret(const std::string &where, const char *p, size_t n);
	Client *client_of(KFd &k) { return k.client >= 0 && k.client < (int)clients.size() ? &clients[k.client] : nullptr; }
	std::string frame_text(const Frame &f);
	void setup_from_header();
};
extern World *W;
