// Scheduler (inside epoll_wait), kernel hooks, stream decoders.
#include "wimpl.h"
#include <cstring>
#include <cerrno>
#include <unistd.h>
#include <sys/epoll.h>
#include <sys/uio.h>
#include <sys/socket.h>
#include <sys/un.h>
#include <netinet/in.h>
#include <arpa/inet.h>
#include <algorithm>

World *W = nullptr;
#include <cstdarg>
void World::dbg(const char *fmt, ...) { if (!debug) return; va_list ap; va_start(ap, fmt); fprintf(stderr, "[%llu] ", (unsigned long long)now); vfprintf(stderr, fmt, ap); fputc('\n', stderr); va_end(ap); }
extern "C" size_t cjet_get_alloc_size(void) __attribute__((weak));
uint64_t world_vnow() { return W ? W->now : 0; }

// ------------------------------------------------------------------ decoders
void InDec::feed(const char *p, size_t n, int c, std::vector<Input> &out) {
	if (dead) return;
	buf.append(p, n);
	for (;;) {
		if (dead) return;
		if (!ws) {
			if (buf.size() < 4) return;
			uint32_t L = ((uint32_t)(unsigned char)buf[0] << 24) | ((uint32_t)(unsigned char)buf[1] << 16) | ((uint32_t)(unsigned char)buf[2] << 8) | (uint32_t)(unsigned char)buf[3];
			if (L == 0) { buf.erase(0, 4); continue; }
			if (L > maxmsg) { Input in; in.t = Input::DROP; in.c = c; in.why = "length prefix above the maximum"; out.push_back(in); dead = true; return; }
			if (buf.size() < 4 + (size_t)L) return;
			Input in; in.t = Input::MSG; in.c = c; in.text = buf.substr(4, L); out.push_back(in);
			buf.erase(0, 4 + (size_t)L);
		} else if (phase == 0) {
			size_t e = buf.find("\r\n\r\n");
			if (e == std::string::npos) return;
			Input in; in.t = Input::HS; in.c = c; in.text = buf.substr(0, e + 4); out.push_back(in);
			buf.erase(0, e + 4); phase = 1;
		} else {
			if (buf.size() < 2) return;
			unsigned char b0 = buf[0], b1 = buf[1];
			size_t hl = 2; uint64_t L = b1 & 0x7f; int lenenc = 0;
			if (L == 126) { if (buf.size() < 4) return; L = ((unsigned char)buf[2] << 8) | (unsigned char)buf[3]; hl = 4; lenenc = 1; }
			else if (L == 127) { if (buf.size() < 10) return; L = 0; for (int i = 0; i < 8; i++) L = (L << 8) | (unsigned char)buf[2 + i]; hl = 10; lenenc = 2; }
			bool masked = b1 & 0x80;
			if (L > maxmsg) {
				// the daemon refuses as soon as it knows the length (after the mask key, which it reads first)
				if (buf.size() < hl + (masked ? 4 : 0)) return;
				Input in; in.t = Input::DROP; in.c = c; in.why = "websocket payload above the maximum"; out.push_back(in); dead = true; return;
			}
			if (masked) hl += 4;
			if (buf.size() < hl + L) return;
			Input in; in.t = Input::WSFRAME; in.c = c;
			in.wf.fin = b0 & 0x80; in.wf.rsv = (b0 >> 4) & 7; in.wf.opcode = b0 & 15; in.wf.masked = masked; in.wf.len = L; in.wf.lenenc = lenenc;
			in.wf.payload = buf.substr(hl, L);
			if (masked) for (size_t i = 0; i < L; i++) in.wf.payload[i] ^= buf[hl - 4 + (i % 4)];
			out.push_back(in);
			buf.erase(0, hl + L);
		}
	}
}

void OutDec::feed(const char *p, size_t n, std::vector<Frame> &out) {
	if (broken) return;
	buf.append(p, n);
	for (;;) {
		if (!ws) {
			if (buf.size() < 4) return;
			uint32_t L = ((uint32_t)(unsigned char)buf[0] << 24) | ((uint32_t)(unsigned char)buf[1] << 16) | ((uint32_t)(unsigned char)buf[2] << 8) | (uint32_t)(unsigned char)buf[3];
			if (L > (64u << 20)) { Frame f; f.t = Frame::GARBAGE; f.raw = buf.substr(0, 64); out.push_back(f); broken = true; return; }
			if (buf.size() < 4 + (size_t)L) return;
			Frame f; f.raw = buf.substr(4, L);
			if (!json_parse(f.raw, f.j)) f.t = Frame::BADJSON;
			out.push_back(f); buf.erase(0, 4 + (size_t)L);
		} else if (!http_done) {
			size_t e = buf.find("\r\n\r\n");
			if (e == std::string::npos) return;
			Frame f; f.t = Frame::HTTP; f.raw = buf.substr(0, e + 4);
			if (f.raw.size() >= 12 && f.raw.compare(0, 5, "HTTP/") == 0) f.http_status = atoi(f.raw.c_str() + 9);
			out.push_back(f); buf.erase(0, e + 4);
			if (f.http_status == 101) http_done = true;
		} else {
			if (buf.size() < 2) return;
			unsigned char b0 = buf[0], b1 = buf[1];
			size_t hl = 2; uint64_t L = b1 & 0x7f; bool minimal = true;
			if (L == 126) { if (buf.size() < 4) return; L = ((unsigned char)buf[2] << 8) | (unsigned char)buf[3]; hl = 4; minimal = L >= 126; }
			else if (L == 127) { if (buf.size() < 10) return; L = 0; for (int i = 0; i < 8; i++) L = (L << 8) | (unsigned char)buf[2 + i]; hl = 10; minimal = L >= 65536; }
			bool masked = b1 & 0x80;
			if (masked) hl += 4;
			if (L > (64u << 20)) { Frame f; f.t = Frame::GARBAGE; out.push_back(f); broken = true; return; }
			if (buf.size() < hl + L) return;
			Frame f; f.fin = b0 & 0x80; f.rsv = (b0 >> 4) & 7; f.wsop = b0 & 15; f.masked = masked; f.minimal = minimal;
			f.raw = buf.substr(hl, L);
			if (masked) for (size_t i = 0; i < L; i++) f.raw[i] ^= buf[hl - 4 + (i % 4)];
			if (f.wsop == 1 && f.fin) { f.t = json_parse(f.raw, f.j) ? Frame::JSON : Frame::BADJSON; }
			else if (f.wsop >= 8) f.t = Frame::WS_CTRL;
			else f.t = Frame::WS_OTHER;
			out.push_back(f); buf.erase(0, hl + L);
		}
	}
}

// ------------------------------------------------------------------ readiness
bool kernel_fd_ready_in(KFd &k) {
	if (!k.open) return false;
	if (k.kind == FD_LISTEN) return !k.backlog.empty();
	if (k.kind == FD_TIMER) return k.expirations > 0;
	if (k.kind == FD_STREAM && W && k.client >= 0) { Client &c = W->clients[k.client]; return c.rx_off < c.rx.size() || c.eof || c.rx_err || c.hup; }
	return false;
}
bool kernel_fd_ready_out(KFd &k) {
	if (!k.open || k.kind != FD_STREAM || !W || k.client < 0) return false;
	return W->clients[k.client].space != 0;
}
static uint32_t current_mask(KFd &k) {
	uint32_t m = 0;
	if (kernel_fd_ready_in(k)) m |= EPOLLIN;
	if (kernel_fd_ready_out(k)) m |= EPOLLOUT;
	if (k.spurious_in) m |= EPOLLIN;
	m &= k.ep_events;
	if (k.kind == FD_STREAM && W && k.client >= 0) {
		Client &c = W->clients[k.client];
		if (c.rx_err && !c.err_reported) m |= EPOLLERR | EPOLLHUP;
		if (c.hup) m |= EPOLLHUP;
		if (c.eof && (k.ep_events & EPOLLRDHUP)) m |= EPOLLRDHUP;
	}
	return m;
}

// ------------------------------------------------------------------ scheduler
void World::schedule(uint64_t t, int type, int a, long b, const std::string &s) {
	Event e; e.t = t; e.seq = ++evseq; e.type = type; e.a = a; e.b = b; e.s = s;
	q.push(e);
}

bool World::any_pending() {
	for (auto &k : g_kernel.fds) if (k.open && k.in_epoll && k.ep_pending) return true;
	return false;
}

int World::compose_batch(void *events_v, int maxevents) {
	struct epoll_event *events = (struct epoll_event *)events_v;
	std::vector<KFd *> cand;
	for (auto &k : g_kernel.fds) if (k.open && k.in_epoll && k.ep_pending) {
		if (current_mask(k) == 0) { k.ep_pending = false; continue; }
		cand.push_back(&k);
	}
	if (cand.empty()) return 0;
	std::sort(cand.begin(), cand.end(), [](KFd *a, KFd *b) { return a->ep_seq < b->ep_seq; });
	batch_no++;
	if (cand.size() > 1 && batch_shuffle_p > 0) {
		Rng r(mix64(plan.seed, 0xBA7C4 + batch_no));
		if (r.chance(batch_shuffle_p)) for (size_t i = cand.size() - 1; i > 0; i--) std::swap(cand[i], cand[r.below(i + 1)]);
	}
	int n = 0; batch.clear();
	Hasher sig;
	for (auto *k : cand) {
		if (n >= maxevents) break;
		uint32_t m = current_mask(*k);
		events[n].events = m; events[n].data.u64 = k->ep_data;
		k->ep_pending = false; k->spurious_in = false;
		batch.push_back({k->fd, m, false});
		sig.u64(k->kind); sig.u64(m);
		trace.tag("ev"); trace.u64(k->fd); trace.u64(m);
		dbg("batch entry fd=%d kind=%d mask=0x%x client=%d", k->fd, k->kind, m, k->client);
		n++;
	}
	res.st.batches++; if (n > 1) res.st.multi_batches++; if ((uint64_t)n > res.st.max_batch) res.st.max_batch = n;
	res.st.batch_sigs.insert(sig.h);
	// classify interesting batch compositions (C14 probes)
	if (n > 1) {
		bool has_timer = false, has_stream = false, has_err = false;
		for (auto &b : batch) { KFd *k = g_kernel.get(b.fd); if (k->kind == FD_TIMER) has_timer = true; if (k->kind == FD_STREAM) { has_stream = true; if (b.mask & (EPOLLERR | EPOLLHUP)) has_err = true; } }
		if (has_timer && has_stream) probe("timer_and_io_same_batch");
		if (has_timer && has_err) probe("timer_and_disconnect_same_batch");
	}
	return n;
}

int World::on_epoll_wait(int epfd, void *events, int maxevents, int timeout) {
	(void)epfd; (void)timeout;
	in_daemon = false;
	if (!started) { started = true; record_baseline(); { const JV *rel = plan.hdr.get("allocfail_rel"); if (rel && rel->t == JV::Arr) for (auto &x : rel->a) g_arena.fail_at.insert(g_arena.nallocs + (uint64_t)x.d); } for (size_t i = 0; i < 1 && !plan.ops.empty(); i++) schedule(now + plan.ops[0].dt, EV_OP, 0); next_op = 0; if (plan.ops.empty()) phase = 1; }
	turn_end();
	shadow_mark();
	if (sigterm_sent) {
		if (++epoll_after_sigterm > 3) { violation("C07", "no-exit-on-sigterm", "daemon keeps waiting for events after the termination signal"); }
		errno = EINTR; in_daemon = true; return -1;
	}
	if (epoll_intr > 0 && started) { epoll_intr--; probe("fault:epoll_wait_interrupted"); trace.tag("epoll-eintr"); errno = EINTR; in_daemon = true; return -1; }
	for (;;) {
		if (++res.st.steps > step_cap) { res.inconclusive = true; res.inconclusive_why = "step cap reached"; finish(0); bail(); }
		if (any_pending() && (!holding || held > 48)) {
			int n = compose_batch(events, maxevents);
			if (n > 0) { holding = false; held = 0; calls_in_turn = 0; in_daemon = true; return n; }
		}
		if (q.empty()) {
			if (holding) { holding = false; continue; }
			if (any_pending()) continue;
			quiescent_point();
			if (!next_phase()) continue;
			// sigterm delivered
			errno = EINTR; in_daemon = true; return -1;
		}
		Event e = q.top();
		if (e.t > now) {
			if (!any_pending() || holding) { if (!any_pending()) quiescent_point(); now = e.t; res.st.vtime_ns = now; }
			else { holding = false; continue; }
		}
		q.pop();
		exec_event(e);
		if (holding) held++;
	}
}

void World::exec_event(const Event &e) {
	dbg("event type=%d a=%d", e.type, e.a);
	trace.tag("X"); trace.u64(e.type); trace.u64(e.a); trace.u64((uint64_t)e.b); trace.u64(e.t);
	switch (e.type) {
	case EV_OP: {
		const Op &op = plan.ops[e.a];
		exec_op(op);
		holding = op.hold;
		next_op = e.a + 1;
		if (next_op < plan.ops.size()) schedule(now + plan.ops[next_op].dt, EV_OP, (int)next_op);
		else if (phase == 0) phase = 1;
		break; }
	case EV_CHUNK: {
		if (e.a < 0 || e.a >= (int)clients.size()) break;
		Client &cl = clients[e.a];
		cl.chunks_queued--;
		deliver_bytes(cl, e.s);
		break; }
	case EV_TIMER: {
		KFd *k = g_kernel.get(e.a);
		if (!k || !k->open || k->kind != FD_TIMER || !k->armed || (long)k->deadline != e.b) break;
		k->armed = false; k->expirations++;
		g_kernel.mark_pending(*k);
		probe("timer_expired");
		break; }
	case EV_REPLY: {
		if (e.a < 0 || e.a >= (int)clients.size()) break;
		Client &cl = clients[e.a];
		if (cl.client_closed || cl.daemon_closed) break;
		std::string bytes = cl.in.ws ? ws_frame(1, e.s, true, true, (uint32_t)mix64(plan.seed, e.seq)) : raw_frame(e.s);
		send_from_client(cl, bytes, nullptr, 0, 0);
		break; }
	}
}

void World::deliver_bytes(Client &cl, const std::string &bytes) {
	if (cl.client_closed || cl.daemon_closed || !cl.connected || bytes.empty()) return;
	if (cl.rx_off > 0 && cl.rx_off == cl.rx.size()) { cl.rx.clear(); cl.rx_off = 0; }
	cl.rx += bytes;
	res.st.bytes_in += bytes.size();
	if (cl.accepted) { KFd *k = g_kernel.get(cl.fd); if (k) g_kernel.mark_pending(*k); }
}

void World::send_from_client(Client &cl, const std::string &bytes, const JV *seg, uint64_t gap, uint64_t uid) {
	// seg: null/"whole" -> one arrival; "bytewise" -> 1-byte arrivals; array -> chunk sizes (rest in the last)
	std::vector<size_t> cuts;
	if (seg && seg->t == JV::Str && seg->s == "bytewise") { for (size_t i = 0; i < bytes.size(); i++) cuts.push_back(1); }
	else if (seg && seg->t == JV::Arr) { for (auto &x : seg->a) if (x.t == JV::Num && x.d >= 1) cuts.push_back((size_t)x.d); }
	size_t off = 0; uint64_t t = std::max(now, cl.chunks_queued > 0 ? cl.last_chunk_t : 0); size_t i = 0;
	(void)uid;
	if (cuts.size() > 0) probe("segmented_send");
	while (off < bytes.size()) {
		size_t n = i < cuts.size() ? std::min(cuts[i], bytes.size() - off) : bytes.size() - off;
		if (off == 0 && cuts.empty() && cl.chunks_queued == 0) { deliver_bytes(cl, bytes); return; }
		schedule(t, EV_CHUNK, cl.idx, 0, bytes.substr(off, n));
		cl.chunks_queued++; cl.last_chunk_t = t;
		off += n; i++; t += gap;
	}
}

// ------------------------------------------------------------------ kernel hooks
void World::on_syscall(const char *name) {
	res.st.syscalls++;
	calls_in_turn++;
	if (in_daemon && calls_in_turn > (long)turn_call_cap) {
		violation("C10", "spin", std::string("daemon made more than ") + std::to_string(turn_call_cap) + " system calls without returning to the event loop (last: " + name + ")");
	}
	if (sigterm_at_call >= 0 && in_daemon && calls_in_turn == sigterm_at_call && !sigterm_sent) {
		sigterm_at_call = -1; probe("sigterm_inside_batch");
		sigterm_sent = true; for (auto &cl : clients) { cl.no_expect = true; cl.expq.clear(); }
		mode = "none"; pend.clear();
		if (g_kernel.sigterm_handler) g_kernel.sigterm_handler(15);
	}
}

int World::on_accept(KFd &k, void *addr_v, unsigned *addrlen) {
	cur_read_client = -1;
	feed_batch_errors_before(k.fd);
	flush_pending();
	if (k.backlog.empty()) { errno = EAGAIN; trace.tag("accept-eagain"); return -1; }
	int ci = k.backlog.front();
	// a shortage of descriptors or memory does not take the waiting connection out of the queue: as long as it lasts (here: until the daemon returns to its event loop)
	// every further accept() on this socket fails the same way
	bool lasting = ci < 0 && (-ci == EMFILE || -ci == ENFILE || -ci == ENOBUFS || -ci == ENOMEM);
	if (!lasting) k.backlog.pop_front();
	else {
		k.lasting_accept_failure = true;
		if (++lasting_accept_failures_turn > 200) violation("C11", "accept-retried-in-a-loop", "accept() failed with errno " + std::to_string(-ci) + " (out of descriptors or memory) and was called again more than 200 times without returning to the event loop: the daemon spins and serves nobody while the shortage lasts");
	}
	if (ci < 0) { errno = -ci; if (!lasting || lasting_accept_failures_turn == 1) probe(std::string("fault:accept_failed:") + std::to_string(-ci)); trace.tag("accept-fail"); trace.u64(-ci); return -1; }
	Client &cl = clients[ci];
	KFd &s = g_kernel.alloc_fd(FD_STREAM);
	KFd &lk = *g_kernel.get(k.fd);  // alloc may have moved the vector
	last_accepted = ci; model_version++;
	s.client = ci; s.sock_family = lk.sock_family; s.cfg_fail_at = cl.cfg_fail_at; s.cfg_fail_errno = cl.cfg_fail_errno; s.cfg_calls = 0; s.epoll_add_errno = cl.epoll_add_errno;
	if (cl.epoll_add_errno) probe("fault:connection_cannot_be_registered");
	if (cl.cfg_fail_at) probe("fault:socket_configuration_call_fails");
	cl.fd = s.fd; cl.accepted = true;
	struct sockaddr_storage ss; memset(&ss, 0, sizeof ss); socklen_t n = 0;
	if (lk.sock_family == AF_INET) { auto *a = (struct sockaddr_in *)&ss; a->sin_family = AF_INET; a->sin_port = htons(40000 + ci); inet_pton(AF_INET, cl.origin_ip.c_str(), &a->sin_addr); n = sizeof *a; }
	else if (lk.sock_family == AF_INET6) {
		auto *a = (struct sockaddr_in6 *)&ss; a->sin6_family = AF_INET6; a->sin6_port = htons(40000 + ci); n = sizeof *a;
		if (cl.origin_ip.find(':') == std::string::npos) { std::string m = "::ffff:" + cl.origin_ip; inet_pton(AF_INET6, m.c_str(), &a->sin6_addr); }
		else inet_pton(AF_INET6, cl.origin_ip.c_str(), &a->sin6_addr);
	} else {
		auto *a = (struct sockaddr_un *)&ss; a->sun_family = AF_UNIX; n = sizeof(sa_family_t);
		if (!cl.un_path.empty()) { size_t m = std::min(cl.un_path.size(), sizeof(a->sun_path)); memcpy(a->sun_path, cl.un_path.data(), m); n += (socklen_t)m; }
	}
	if (addr_v && addrlen) { socklen_t m = std::min<socklen_t>(n, *addrlen); memcpy(addr_v, &ss, m); *addrlen = n; }
	trace.tag("accept"); trace.u64(ci);
	if (mode == "exact") model.on_connect(ci, cl.transport, cl.origin_local);
	if (shadow_enabled) { Input in; in.t = Input::CONN; in.c = ci; in.text = cl.transport; in.fd = cl.origin_local ? 1 : 0; if (shadow_active) shadow_apply(cands, in, false); shadow_mark(); }
	probe("accepted:" + cl.transport);
	return s.fd;
}

long World::on_read(KFd &k, void *buf, size_t n) {
	feed_batch_errors_before(k.fd);
	flush_pending();
	shadow_mark();
	if (k.kind == FD_TIMER) {
		cur_read_client = -1;
		if (k.expirations == 0) { errno = EAGAIN; return -1; }
		if (n < 8) { errno = EINVAL; return -1; }
		uint64_t v = k.expirations; k.expirations = 0; memcpy(buf, &v, 8);
		trace.tag("timer-read"); trace.u64(k.fd);
		Input in; in.t = Input::TIMER; in.fd = k.fd; feed_input(in);
		return 8;
	}
	Client *clp = client_of(k);
	if (!clp) { errno = EBADF; return -1; }
	Client &cl = *clp;
	cur_read_client = cl.idx;
	size_t avail = cl.rx.size() - cl.rx_off;
	if (avail == 0) {
		if (cl.rx_err) { int e = cl.rx_err; cl.err_reported = true; cl.rx_err = 0; cl.eof = true; errno = e; trace.tag("read-err"); trace.u64(e);
			Input in; in.t = Input::GONE; in.c = cl.idx; in.why = "read error"; feed_input(in); return -1; }
		if (cl.eof || cl.hup) { trace.tag("read-eof"); trace.u64(cl.idx); Input in; in.t = Input::GONE; in.c = cl.idx; in.why = "end of stream"; feed_input(in); return 0; }
		errno = EAGAIN; return -1;
	}
	size_t m = std::min(avail, n);
	if (cl.rdcap && m > cl.rdcap) { m = cl.rdcap; probe("short_read"); }
	if (mode == "exact" && (cl.faulty || (cl.client_closed && !cl.eof)) && !cl.no_expect) {
		// the daemon may give this peer up while it processes any of its messages: they are handed over one per turn, so that what it did process is known
		if (cl.msg_done_turn) { errno = EAGAIN; trace.tag("read-deferred"); return -1; }
		m = 1;
	}
	if (n == 0) return 0;
	memcpy(buf, cl.rx.data() + cl.rx_off, m);
	dbg("read c%d %zu bytes", cl.idx, m);
	trace.tag("read"); trace.u64(cl.idx); trace.bytes(cl.rx.data() + cl.rx_off, m);
	std::vector<Input> ins;
	cl.in.feed(cl.rx.data() + cl.rx_off, m, cl.idx, ins);
	cl.rx_off += m;
	if (ins.size() > 1) probe("multi_message_read");
	if (!ins.empty() && m == 1 && mode == "exact" && (cl.faulty || cl.client_closed)) cl.msg_done_turn = true;
	for (auto &in : ins) {
		// in exact mode a batch is fed member by member (it must behave like its members sent one by one)
		JV j;
		if (in.t == Input::WSFRAME) in.wscls = classify_ws(cl, in.wf);
		const std::string &txt = in.t == Input::MSG ? in.text : in.wf.payload;
		bool is_text = in.t == Input::MSG || (in.t == Input::WSFRAME && in.wscls == W_TEXT);
		if (mode == "exact" && is_text && !txt.empty() && txt[0] == '[' && json_parse(txt, j) && j.t == JV::Arr && !jv_has_nul(j)) {
			if (j.a.size() >= 3) probe("batch_len>=3");
			probe("batch_expanded");
			for (auto &m : j.a) {
				Input mi; mi.c = in.c;
				if (m.t == JV::Obj) { mi.t = Input::MSG; mi.text = m.dump(); pend.push_back(mi); }
				else { mi.t = Input::DROP; mi.why = "batch member that is not an object"; pend.push_back(mi); break; }
			}
			continue;
		}
		if (mode == "exact" && in.t == Input::WSFRAME && is_text) { Input mi; mi.c = in.c; mi.t = Input::MSG; mi.text = txt; pend.push_back(mi); continue; }
		pend.push_back(in);
	}
	if (!pend.empty()) feed_one_pending();
	return (long)m;
}

// A write to a peer fails for good while the daemon is answering one of its requests. The daemon gives the peer up then, in the middle of whatever message
// (batch) it is processing: the members up to the one whose answer failed were carried out, the rest of that peer's input never is.
void World::write_failed_for(Client &cl, const std::string &frame) {
	if (mode != "exact" || !cl.faulty || cl.no_expect) return;
	if (cur_read_client != cl.idx) return;    // the daemon is not working on this peer's input: a relayed answer or a notification that cannot be delivered does not end the peer
	size_t off = 0;
	if (cl.od.ws) { if (frame.size() < 2) return; size_t l = (unsigned char)frame[1] & 0x7f; off = l == 126 ? 4 : l == 127 ? 10 : 2; } else off = 4;
	JV j; if (frame.size() <= off || !json_parse(frame.substr(off), j) || j.t != JV::Obj) return;
	const JV *id = j.get("id");
	if (!id || (id->t != JV::Str && id->t != JV::Num) || j.has("method")) return;      // only answers to the peer's own requests tell how far it got
	bool found = false;
	for (auto &in : pend) { if (in.c != cl.idx) break; JV q; if (in.t == Input::MSG && json_parse(in.text, q) && q.t == JV::Obj && q.get("id") && id_equal(*q.get("id"), *id)) { found = true; break; } }
	if (found) while (!pend.empty() && pend.front().c == cl.idx) { Input in = pend.front(); JV q; bool last = in.t == Input::MSG && json_parse(in.text, q) && q.t == JV::Obj && q.get("id") && id_equal(*q.get("id"), *id); feed_one_pending(); if (last) break; }
	// what is left of this peer's input is never looked at
	{ std::deque<Input> keep; for (auto &in : pend) if (in.c != cl.idx) keep.push_back(in); else probe("input_of_dropped_peer_never_processed"); pend.swap(keep); }
	cl.answer_write_failed = true; probe("answer_to_faulty_peer_failed");
}

long World::on_writev(KFd &k, const struct iovec *iov, int cnt) {
	Client *clp = client_of(k);
	if (!clp) { errno = EBADF; return -1; }
	Client &cl = *clp;
	size_t total = 0; for (int i = 0; i < cnt; i++) total += iov[i].iov_len;
	cl.write_attempts_turn++;
	c10_offer(cl, iov, cnt);
	if (cl.wr_err) { write_failed_for(cl, cl.c10.cur_F); c10_result(cl, -1, cl.wr_err); errno = cl.wr_err; probe("fault:write_error"); trace.tag("w-err"); return -1; }
	if (cl.client_closed && cl.wr_fail_after_close && cl.wr_ok_left > 0) cl.wr_ok_left--;
	else if (cl.client_closed && cl.wr_fail_after_close) { write_failed_for(cl, cl.c10.cur_F); c10_result(cl, -1, EPIPE); errno = EPIPE; probe("fault:write_epipe"); trace.tag("w-epipe"); return -1; }
	if (total == 0) return 0;
	if (cl.space == 0) { c10_result(cl, -1, EAGAIN); cl.blocked = true; errno = EAGAIN; probe("fault:would_block"); trace.tag("w-eagain"); return -1; }
	size_t m = total;
	if (cl.space > 0 && (size_t)cl.space < m) m = (size_t)cl.space;
	if (cl.wcap && m > cl.wcap) m = cl.wcap;
	if (cl.wboundary && cnt >= 2 && total > 1) {
		// a kernel that accepts a gathered write exactly up to a buffer boundary, or as many bytes as one of the parts is long: the amounts a
		// bookkeeping slip is most likely to mistake for "everything went out"
		Rng br(mix64(mix64(plan.seed, 0xB0DA), ((uint64_t)cl.idx << 32) + cl.wcount++));
		size_t first = iov[0].iov_len, c = 0;
		switch (br.below(6)) {
		case 0: c = first; break;                         // exactly the first buffer (the parked bytes, when there are any)
		case 1: c = total - first; break;                 // as many bytes as everything behind the first buffer is long
		case 2: c = first + iov[1].iov_len; break;         // first two buffers
		case 3: c = first > 1 ? first - 1 : 1; break;
		case 4: c = first + 1; break;
		default: c = total - 1; break;
		}
		if (c >= 1 && c < total && c < m) { m = c; probe("fault:write_accepted_to_a_boundary"); }
	}
	if (m < total) { probe("fault:short_write"); cl.blocked = true; }
	std::string acc; acc.reserve(m);
	size_t left = m;
	for (int i = 0; i < cnt && left; i++) { size_t t = std::min(left, iov[i].iov_len); acc.append((const char *)iov[i].iov_base, t); left -= t; }
	if (cl.space > 0) cl.space -= (int64_t)m;
	dbg("writev c%d %zu bytes: %.120s", cl.idx, m, acc.c_str() + (acc.size() > 4 ? 4 : 0));
	trace.tag("w"); trace.u64(cl.idx); trace.bytes(acc.data(), acc.size());
	res.st.bytes_out += m;
	scan_secret("connection output", acc.data(), acc.size());
	cl.out += acc;
	c10_result(cl, (long)m, 0);
	c10_accept(cl, acc.data(), acc.size());
	std::vector<Frame> fr;
	cl.od.feed(acc.data(), acc.size(), fr);
	if (!fr.empty()) on_frames(cl, fr);
	return (long)m;
}

void World::on_close(KFd &k) {
	model_version++;
	dbg("close fd=%d kind=%d client=%d", k.fd, k.kind, k.client);
	trace.tag("close"); trace.u64(k.fd); trace.u64(k.kind);
	if (k.kind == FD_STREAM) {
		Client *cl = client_of(k);
		if (cl) {
			if (sigterm_sent) { cl->expq.clear(); probe("closed_by_termination"); }
			else if (mode == "exact" && !cl->no_expect && cl->faulty) {
				// the daemon gives a faulty peer up when it cannot write to it: an observation, fed to the model as an input (DESIGN.md 5.2)
				if (cl->answer_write_failed) { std::deque<Input> keep; for (auto &in : pend) if (in.c != cl->idx) keep.push_back(in); else probe("input_of_dropped_peer_never_processed"); pend.swap(keep); }
				flush_pending();
				// an add of this peer that nobody was told about did not take effect: settle that before its elements are taken away
				if (!cl->closing) { probe("faulty_peer_dropped_by_daemon"); resolve_silent_decisions(); model.on_peer_gone(cl->idx, false); cl->closing = true; { Input gi; gi.t = Input::GONE; gi.c = cl->idx; gi.why = "faulty peer released"; shadow_log(gi); } }
				cl->expq.clear();
			}
			else if (mode == "exact" && !cl->no_expect) { if (!match_close(*cl)) {
				violation("C02", "unexpected-close", "daemon closed connection c" + std::to_string(cl->idx) + " (" + cl->transport + ") although nothing it sent or suffered justifies that"); } }
			else cl->expq.clear();
			if (shadow_active && !sigterm_sent) { flush_pending(); Input in; in.t = Input::GONE; in.c = cl->idx; in.why = "released by the daemon"; shadow_log(in); shadow_settle_unexplained(false); }
			cl->daemon_closed = true;
		}
	} else if (k.kind == FD_TIMER) {
		if (k.in_epoll) probe("timer_closed_while_registered");
		if (mode == "exact") {
			if (k.armed_value == 0) while (!model.has_unbound_routed() && feed_one_pending()) {}
			model.on_timer_closed(k.fd);
		}
	}
}

void World::on_timer_set(KFd &k, uint64_t ns) {
	model_version++;
	dbg("settime fd=%d ns=%llu", k.fd, (unsigned long long)ns);
	trace.tag("settime"); trace.u64(k.fd); trace.u64(ns);
	if (ns == 0) { k.armed = false; k.expirations = 0; probe("timer_disarmed"); return; }
	k.armed = true; k.armed_value = ns; k.deadline = ns > (1ULL << 62) ? (1ULL << 62) + now : now + ns; k.expirations = 0;
	schedule(k.deadline, EV_TIMER, k.fd, (long)k.deadline);
	if (mode == "exact") {
		// the request being set up may belong to a message of a multi-message read that the model has not seen yet
		while (!model.has_unbound_routed() && feed_one_pending()) {}
		model.on_timer_armed(k.fd, ns);
	}
}

int World::syscall_fault(const char *name) {
	if (started || startup_fail_at <= 0) return 0;
	if (++startup_calls != startup_fail_at) return 0;
	probe(std::string("fault:startup_call_fails:") + name);
	trace.tag("startup-fault"); trace.tag(name);
	if (!strcmp(name, "socket") || !strcmp(name, "epoll_create") || !strcmp(name, "open")) return EMFILE;
	if (!strcmp(name, "bind") || !strcmp(name, "listen")) return EADDRINUSE;
	if (!strcmp(name, "epoll_ctl")) return ENOSPC;
	if (!strcmp(name, "setsockopt")) return ENOPROTOOPT;
	return EINVAL;
}

void World::on_timer_create_failed() {
	model_version++;
	// the request whose deadline timer cannot be created is abandoned by the daemon: it must not be taken for the owner of the next timer
	trace.tag("timer-create-failed");
	if (mode != "exact") return;
	while (!model.has_unbound_routed() && feed_one_pending()) {}
	model.on_timer_closed(-3);   // no request carries this value: the most recent request without a timer is marked abandoned
}

void World::on_log(int pri, const std::string &line) {
	if (logs.size() < 200) logs.push_back(line);
	dbg("log: %s", line.c_str());
	trace.tag("log");
	// the daemon's own heap cap refused an allocation: the same situation as an injected failure, reached by ordinary client activity
	// (recognised by its wording, or - so that a reworded message changes nothing - by any warning/error logged while the accounted heap is in the upper half of a
	// small configured cap: taking a log line for a refusal that is none only makes the oracles more lenient for the rest of the run, never stricter)
	bool near_cap = g_variant.heap_kb > 0 && g_variant.heap_kb <= 1024 && cjet_get_alloc_size && (long)cjet_get_alloc_size() * 2 >= (long)g_variant.heap_kb * 1024 && (pri & 7) <= 4;
	if (started && !done && (line.find("Maximum allowed heap size exceeded") != std::string::npos || near_cap)) { probe("fault:heap_cap_refusal"); on_alloc_fail(0); }
	scan_secret("log line", line.data(), line.size());
}

void World::on_alloc_fail(uint64_t index) {
	model_version++;
	trace.tag("allocfail"); trace.u64(index);
	fault_turn = (long)res.st.batches; faults_fired++;
	if (index) probe("fault:alloc_failed");
	for (auto &cl : clients) { cl.c19_broken_by_fault = true; if (cl.c19) cl.c19_set_lenient(); }   // echo endpoint: what a connection that lived through the failure gets back is not predictable
	if (!started) probe("alloc_failed_during_startup");
	// the outcome of whatever is being processed now is not predictable: requests outstanding at this moment may stay unanswered (never answered twice)
	// (the remaining messages of the interrupted read are accounted in ledger mode: the reference model's "outcome must be signalled before further input" rule no longer applies)
	if (mode == "exact") { for (auto &cl : clients) cl.expq.clear(); mode = "ledger"; flush_pending(); }
	else if (shadow_active) flush_pending();
	shadow_fork();
}

void World::password_changed(const std::string &user, const std::string &oldpw, const std::string &newpw, bool tentative) {
	JV c = JV::obj(); c.set("user", JV::str(user)); c.set("old", JV::str(oldpw)); c.set("new", JV::str(newpw)); c.set("applied", JV::boolean(!tentative)); c.set("resolved", JV::boolean(!tentative));
	pw_changes.push_back(c); g_kernel.cur_change = (int)pw_changes.size();
	secrets.push_back(newpw);
}
void World::password_resolved(int index, bool applied) {
	if (index < 0 || index >= (int)pw_changes.size()) return;
	pw_changes[index].put("applied", JV::boolean(applied)); pw_changes[index].put("resolved", JV::boolean(true));
}

void World::on_file_op(const char *op, long result) {
	trace.tag("fs"); trace.tag(op); trace.u64((uint64_t)result); probe(std::string("fs:") + op);
	if ((!strcmp(op, "sockcfg-fault") || !strcmp(op, "epoll-add-fault")) && last_accepted >= 0 && last_accepted < (int)clients.size()) {
		// the connection being set up will not be served: nothing is expected on it, and the reference model forgets it
		Client &cl = clients[last_accepted];
		cl.no_expect = true; cl.policy.put("maydrop", JV::boolean(true)); cl.expq.clear();
		if (mode == "exact") model.on_peer_gone(cl.idx, false);
		Input gi; gi.t = Input::GONE; gi.c = cl.idx; gi.why = "connection set-up failed"; shadow_log(gi);
	}
}

void World::scan_secret(const std::string &where, const char *p, size_t n) {
	for (auto &s : secrets) {
		if (s.size() < 6 || n < s.size()) continue;
		if (memmem(p, n, s.data(), s.size())) violation("C08", "password-disclosed", "a password appears in a " + where);
	}
}

void World::hygiene(const std::string &rule, const std::string &detail) {
	violation("C07", "hygiene/" + rule, detail);
}
