// Small JSON value type for the harness (independent of the daemon's cJSON).
#pragma once
#include <string>
#include <vector>
#include <utility>
#include <cstdint>

struct JV {
	enum T { Null, Bool, Num, Str, Arr, Obj } t = Null;
	bool b = false;
	double d = 0;
	std::string s;                 // Str: bytes; Num: optional raw literal (printed verbatim if non-empty)
	std::vector<JV> a;             // Arr
	std::vector<std::pair<std::string, JV>> o; // Obj: ordered, duplicates allowed

	JV() {}
	static JV null() { return JV(); }
	static JV boolean(bool v) { JV j; j.t = Bool; j.b = v; return j; }
	static JV num(double v) { JV j; j.t = Num; j.d = v; return j; }
	static JV numraw(const std::string &raw);
	static JV str(const std::string &v) { JV j; j.t = Str; j.s = v; return j; }
	static JV arr() { JV j; j.t = Arr; return j; }
	static JV obj() { JV j; j.t = Obj; return j; }

	bool is(T x) const { return t == x; }
	JV &set(const std::string &k, const JV &v) { o.emplace_back(k, v); return *this; }
	JV &put(const std::string &k, const JV &v) { for (auto &kv : o) if (kv.first == k) { kv.second = v; return *this; } o.emplace_back(k, v); return *this; } // replace
	JV &push(const JV &v) { a.push_back(v); return *this; }
	const JV *get(const std::string &k) const; // first exact-match member
	bool has(const std::string &k) const { return get(k) != nullptr; }
	std::string gets(const std::string &k, const std::string &def = "") const { const JV *v = get(k); return v && v->t == Str ? v->s : def; }
	double getd(const std::string &k, double def = 0) const { const JV *v = get(k); return v && v->t == Num ? v->d : def; }
	bool getb(const std::string &k, bool def = false) const { const JV *v = get(k); return v && v->t == Bool ? v->b : def; }
	int64_t geti(const std::string &k, int64_t def = 0) const { const JV *v = get(k); return v && v->t == Num ? (int64_t)v->d : def; }

	std::string dump() const;      // compact
	void dump_to(std::string &out) const;
};

// strict parser; returns false on error. *endpos = bytes consumed (no trailing whitespace skipped unless skip_ws).
bool json_parse(const char *p, size_t n, JV &out, size_t *endpos = nullptr);
bool json_parse(const std::string &s, JV &out);
// semantic equality: numbers as doubles, objects as unordered (first occurrence of duplicate keys wins)
bool json_equal(const JV &a, const JV &b);
std::string json_escape(const std::string &s);
// does any string (member name or value) contain a NUL byte? A daemon that keeps strings as C strings cannot represent such a text.
bool jv_has_nul(const JV &v);
