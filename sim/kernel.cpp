// Simulated kernel: the daemon's libc/OS symbols are renamed to sim_* by objcopy and land here.
#include "kernel.h"
#include <cstring>
#include <cstdio>
#include <cstdlib>
#include <cstdarg>
#include <cerrno>
#include <csignal>
#include <fcntl.h>
#include <unistd.h>
#include <sys/mman.h>
#include <sys/stat.h>
#include <sys/uio.h>
#include <sys/epoll.h>
#include <sys/socket.h>
#include <sys/un.h>
#include <sys/timerfd.h>
#include <netinet/in.h>
#include <arpa/inet.h>
#include <netdb.h>
#include <pwd.h>
#include <sanitizer/asan_interface.h>

Arena g_arena;
Kernel g_kernel;
KernelHooks *g_hooks = nullptr;

static const size_t ARENA_CAP = 48u << 20;
static const uintptr_t ARENA_ADDR = 0x6f0000000000ULL;
static const size_t REDZONE = 32;

void Arena::init() {
	if (base) return;
	void *p = mmap((void *)ARENA_ADDR, ARENA_CAP, PROT_READ | PROT_WRITE, MAP_PRIVATE | MAP_ANONYMOUS | MAP_NORESERVE | MAP_FIXED_NOREPLACE, -1, 0);
	if (p == MAP_FAILED || p != (void *)ARENA_ADDR) { fprintf(stderr, "cjetsim: cannot map arena at fixed address: %s\n", strerror(errno)); _exit(3); }
	base = (unsigned char *)p; cap = ARENA_CAP; cur = 0;
	__asan_poison_memory_region(base, cap);
}

static inline uint64_t xs(uint64_t &s) { s ^= s << 13; s ^= s >> 7; s ^= s << 17; return s; }

extern "C" void __sanitizer_print_stack_trace(void);
void *Arena::alloc(size_t n, bool zero) {
	nallocs++;
	if (!stack_at.empty() && stack_at.count(nallocs)) { fprintf(stderr, "== allocation #%llu (%zu bytes)%s\n", (unsigned long long)nallocs, n, fail_at.count(nallocs) ? " [made to fail]" : ""); __sanitizer_print_stack_trace(); }
	if (fail_at.count(nallocs)) { if (g_hooks) g_hooks->on_alloc_fail(nallocs); errno = ENOMEM; return nullptr; }
	size_t need = ((n + 15) & ~(size_t)15) + REDZONE;
	size_t off = 0; bool recycled = false;
	if (reuse) {
		auto fl = freelist.find((n + 15) & ~(size_t)15);
		if (fl != freelist.end() && !fl->second.empty()) { int bi = fl->second.back(); fl->second.pop_back(); blocks[bi].live = true; blocks[bi].size = n; blocks[bi].seq = nallocs; off = blocks[bi].off; recycled = true; }
	}
	if (!recycled) {
		if (n > cap || cur + REDZONE + need > cap) { exhausted = true; errno = ENOMEM; return nullptr; }
		off = cur + REDZONE;
		cur = off + ((n + 15) & ~(size_t)15);
		ArenaBlock b{off, n, true, nallocs};
		blocks.push_back(b);
	}
	live_bytes += n; live_blocks++; if (live_bytes > peak_live) peak_live = live_bytes;
	unsigned char *p = base + off;
	__asan_unpoison_memory_region(p, n);
	if (zero) memset(p, 0, n);
	else switch (fill_mode) {
		case 0: { size_t i = 0; for (; i + 8 <= n; i += 8) { uint64_t v = xs(fill_state); memcpy(p + i, &v, 8); } for (; i < n; i++) p[i] = (unsigned char)xs(fill_state); break; }
		case 1: memset(p, 0xFF, n); break;
		case 2: memset(p, 0xA5, n); break;
		case 3: memset(p, 0x00, n); break;
		default: memset(p, 0x7E, n); break; // printable garbage without NUL
	}
	return p;
}

int Arena::find(const void *p) const {
	size_t off = (const unsigned char *)p - base;
	int lo = 0, hi = (int)blocks.size() - 1;
	while (lo <= hi) { int mid = (lo + hi) / 2; if (blocks[mid].off == off) return mid; if (blocks[mid].off < off) lo = mid + 1; else hi = mid - 1; }
	return -1;
}

void Arena::release(void *p) {
	int i = find(p);
	if (i < 0) { if (g_hooks) g_hooks->hygiene("free-of-non-block", "free() of a pointer that is not the start of a live allocation"); return; }
	if (!blocks[i].live) { if (g_hooks) g_hooks->hygiene("double-free", "free() of an allocation that was already freed (alloc #" + std::to_string(blocks[i].seq) + ")"); return; }
	blocks[i].live = false; live_bytes -= blocks[i].size; live_blocks--;
	__asan_poison_memory_region(base + blocks[i].off, (blocks[i].size + 15) & ~(size_t)15);
	if (reuse) freelist[(blocks[i].size + 15) & ~(size_t)15].push_back(i);
}

void *Arena::resize(void *p, size_t n) {
	if (!p) return alloc(n, false);
	int i = find(p);
	if (i < 0 || !blocks[i].live) { if (g_hooks) g_hooks->hygiene("realloc-of-non-block", "realloc() of a pointer that is not a live allocation"); return nullptr; }
	size_t old = blocks[i].size;
	void *q = alloc(n, false);
	if (!q) return nullptr;
	memcpy(q, p, old < n ? old : n);
	release(p);
	return q;
}

KFd &Kernel::alloc_fd(FdKind kind) {
	KFd k; k.fd = fd_base + (int)fds.size(); k.kind = kind; k.open = true;
	fds.push_back(k);
	return fds.back();
}

void Kernel::mark_pending(KFd &k) {
	if (!k.open || !k.in_epoll) return;
	if (!k.ep_pending) { k.ep_pending = true; k.ep_seq = ++ep_seq; }
}

#define SYSCALL(name) do { if (g_hooks) g_hooks->on_syscall(name); } while (0)

static KFd *checked(int fd, const char *call, int kinds_mask) {
	KFd *k = g_kernel.get(fd);
	if (!k) { if (g_hooks) g_hooks->hygiene("foreign-descriptor", std::string(call) + " on descriptor " + std::to_string(fd) + " which the daemon never received"); errno = EBADF; return nullptr; }
	if (!k->open) { if (g_hooks) g_hooks->hygiene("use-after-close", std::string(call) + " on closed descriptor (kind " + std::to_string(k->kind) + ")"); errno = EBADF; return nullptr; }
	if (!(kinds_mask & (1 << k->kind))) { if (g_hooks) g_hooks->hygiene("wrong-descriptor-kind", std::string(call) + " on descriptor of kind " + std::to_string(k->kind)); errno = EINVAL; return nullptr; }
	return k;
}
#define M(k) (1 << (k))

extern "C" {

void *sim_malloc(size_t n) { SYSCALL("malloc"); return g_arena.alloc(n, false); }
void *sim_calloc(size_t a, size_t b) { SYSCALL("calloc"); if (b && a > (size_t)-1 / b) { g_arena.nallocs++; errno = ENOMEM; return nullptr; } return g_arena.alloc(a * b, true); }
void *sim_realloc(void *p, size_t n) {
	SYSCALL("realloc");
	if (p && !g_arena.owns(p)) return realloc(p, n);
	if (p && n == 0) { g_arena.release(p); return nullptr; }
	return g_arena.resize(p, n);
}
void sim_free(void *p) {
	SYSCALL("free");
	if (!p) return;
	if (!g_arena.owns(p)) { free(p); return; }
	g_arena.release(p);
}

int sim_socket(int domain, int type, int protocol) {
	SYSCALL("socket"); { int fe_ = g_hooks ? g_hooks->syscall_fault("socket") : 0; if (fe_) { errno = fe_; return -1; } } (void)type; (void)protocol;
	KFd &k = g_kernel.alloc_fd(FD_SOCKNEW); k.sock_family = domain;
	return k.fd;
}

int sim_setsockopt(int fd, int level, int optname, const void *optval, socklen_t optlen) {
	SYSCALL("setsockopt"); { int fe_ = g_hooks ? g_hooks->syscall_fault("setsockopt") : 0; if (fe_) { errno = fe_; return -1; } } (void)optlen;
	KFd *k = checked(fd, "setsockopt", M(FD_SOCKNEW) | M(FD_LISTEN) | M(FD_STREAM));
	if (!k) return -1;
	if (k->kind == FD_STREAM && k->cfg_fail_at && ++k->cfg_calls == k->cfg_fail_at) { if (g_hooks) g_hooks->on_file_op("sockcfg-fault", k->cfg_fail_errno); errno = k->cfg_fail_errno; return -1; }
	if (level == IPPROTO_IPV6 && optname == IPV6_V6ONLY && optval) k->v6only = *(const int *)optval != 0;
	return 0;
}

int sim_fcntl(int fd, int cmd, ...) {
	SYSCALL("fcntl"); { int fe_ = g_hooks ? g_hooks->syscall_fault("fcntl") : 0; if (fe_) { errno = fe_; return -1; } }
	va_list ap; va_start(ap, cmd); long arg = va_arg(ap, long); va_end(ap);
	KFd *k = checked(fd, "fcntl", ~0);
	if (!k) return -1;
	if (k->kind == FD_STREAM && k->cfg_fail_at && ++k->cfg_calls == k->cfg_fail_at) { if (g_hooks) g_hooks->on_file_op("sockcfg-fault", k->cfg_fail_errno); errno = k->cfg_fail_errno; return -1; }
	if (cmd == F_GETFL) return O_RDWR;
	if (cmd == F_SETFL) { (void)arg; return 0; }
	return 0;
}

static SockAddrSpec spec_of(const struct sockaddr *sa, socklen_t len) {
	SockAddrSpec s; s.family = sa->sa_family;
	char buf[64];
	if (sa->sa_family == AF_INET) { auto *a = (const struct sockaddr_in *)sa; inet_ntop(AF_INET, &a->sin_addr, buf, sizeof buf); s.ip = buf; s.port = ntohs(a->sin_port); }
	else if (sa->sa_family == AF_INET6) { auto *a = (const struct sockaddr_in6 *)sa; inet_ntop(AF_INET6, &a->sin6_addr, buf, sizeof buf); s.ip = buf; s.port = ntohs(a->sin6_port); }
	else if (sa->sa_family == AF_UNIX) { auto *a = (const struct sockaddr_un *)sa; size_t n = len > offsetof(struct sockaddr_un, sun_path) ? len - offsetof(struct sockaddr_un, sun_path) : 0; s.unpath.assign(a->sun_path, n); }
	return s;
}

int sim_bind(int fd, const struct sockaddr *addr, socklen_t len) {
	SYSCALL("bind"); { int fe_ = g_hooks ? g_hooks->syscall_fault("bind") : 0; if (fe_) { errno = fe_; return -1; } }
	KFd *k = checked(fd, "bind", M(FD_SOCKNEW));
	if (!k) return -1;
	k->bound = spec_of(addr, len);
	return 0;
}

int sim_listen(int fd, int backlog) {
	SYSCALL("listen"); { int fe_ = g_hooks ? g_hooks->syscall_fault("listen") : 0; if (fe_) { errno = fe_; return -1; } } (void)backlog;
	KFd *k = checked(fd, "listen", M(FD_SOCKNEW) | M(FD_LISTEN));
	if (!k) return -1;
	k->kind = FD_LISTEN; k->listening = true;
	return 0;
}

int sim_accept(int fd, struct sockaddr *addr, socklen_t *addrlen) {
	SYSCALL("accept");
	KFd *k = checked(fd, "accept", M(FD_LISTEN));
	if (!k) return -1;
	return g_hooks->on_accept(*k, addr, addrlen);
}
int sim_accept4(int fd, struct sockaddr *addr, socklen_t *addrlen, int flags) { (void)flags; return sim_accept(fd, addr, addrlen); }

int sim_getsockname(int fd, struct sockaddr *addr, socklen_t *addrlen) {
	SYSCALL("getsockname"); { int fe_ = g_hooks ? g_hooks->syscall_fault("getsockname") : 0; if (fe_) { errno = fe_; return -1; } }
	KFd *k = checked(fd, "getsockname", M(FD_SOCKNEW) | M(FD_LISTEN) | M(FD_STREAM));
	if (!k) return -1;
	if (k->kind == FD_STREAM && k->cfg_fail_at && ++k->cfg_calls == k->cfg_fail_at) { if (g_hooks) g_hooks->on_file_op("sockcfg-fault", k->cfg_fail_errno); errno = k->cfg_fail_errno; return -1; }
	struct sockaddr_storage ss; memset(&ss, 0, sizeof ss);
	ss.ss_family = (sa_family_t)k->sock_family;
	socklen_t n = k->sock_family == AF_INET ? sizeof(struct sockaddr_in) : k->sock_family == AF_INET6 ? sizeof(struct sockaddr_in6) : sizeof(sa_family_t);
	if (*addrlen < n) n = *addrlen;
	memcpy(addr, &ss, n); *addrlen = n;
	return 0;
}

static bool buffer_ok(const void *p, size_t n, const char *what) {
	if (n == 0) return true;
	if (n > (1ul << 30) || (uintptr_t)p + n < (uintptr_t)p) {
		if (g_hooks) g_hooks->hygiene("bad-io-buffer", std::string(what) + ": buffer length " + std::to_string(n) + " is absurd (a negative length converted to size_t?)");
		return false;
	}
	if (__asan_region_is_poisoned((void *)p, n)) {
		if (g_hooks) g_hooks->hygiene("bad-io-buffer", std::string(what) + ": buffer of " + std::to_string(n) + " bytes is not entirely inside a live object");
		return false;
	}
	return true;
}

static long file_write(KFd &k, const void *buf, size_t n);

ssize_t sim_read(int fd, void *buf, size_t n) {
	SYSCALL("read");
	KFd *k = checked(fd, "read", M(FD_STREAM) | M(FD_TIMER) | M(FD_FILE));
	if (!k) return -1;
	if (!buffer_ok(buf, n, "read")) { errno = EFAULT; return -1; }
	if (k->kind == FD_FILE) {
		auto it = g_kernel.files.find(k->path);
		static const std::string empty;
		const std::string &data = it == g_kernel.files.end() ? empty : it->second;
		size_t avail = data.size() > k->fpos ? data.size() - k->fpos : 0;
		size_t m = n < avail ? n : avail;
		memcpy(buf, data.data() + k->fpos, m); k->fpos += m;
		return (ssize_t)m;
	}
	return g_hooks->on_read(*k, buf, n);
}
ssize_t sim_recv(int fd, void *buf, size_t n, int flags) { (void)flags; return sim_read(fd, buf, n); }

ssize_t sim_writev(int fd, const struct iovec *iov, int cnt) {
	SYSCALL("writev");
	KFd *k = checked(fd, "writev", M(FD_STREAM));
	if (!k) return -1;
	for (int i = 0; i < cnt; i++) if (!buffer_ok(iov[i].iov_base, iov[i].iov_len, "writev")) { errno = EFAULT; return -1; }
	return g_hooks->on_writev(*k, iov, cnt);
}

ssize_t sim_write(int fd, const void *buf, size_t n) {
	SYSCALL("write");
	KFd *k = checked(fd, "write", M(FD_STREAM) | M(FD_FILE));
	if (!k) return -1;
	if (!buffer_ok(buf, n, "write")) { errno = EFAULT; return -1; }
	if (k->kind == FD_FILE) return file_write(*k, buf, n);
	struct iovec v; v.iov_base = (void *)buf; v.iov_len = n;
	return g_hooks->on_writev(*k, &v, 1);
}
ssize_t sim_send(int fd, const void *buf, size_t n, int flags) { (void)flags; return sim_write(fd, buf, n); }
ssize_t sim_sendmsg(int fd, const struct msghdr *msg, int flags) { (void)flags; return sim_writev(fd, msg->msg_iov, (int)msg->msg_iovlen); }
int sim_shutdown(int fd, int how) { SYSCALL("shutdown"); (void)how; KFd *k = checked(fd, "shutdown", M(FD_STREAM)); return k ? 0 : -1; }

int sim_close(int fd) {
	SYSCALL("close");
	KFd *k = g_kernel.get(fd);
	if (!k) { if (g_hooks) g_hooks->hygiene("foreign-descriptor", "close of descriptor " + std::to_string(fd) + " which the daemon never received"); errno = EBADF; return -1; }
	if (!k->open) { if (g_hooks) g_hooks->hygiene("double-close", "descriptor closed twice (kind " + std::to_string(k->kind) + ")"); errno = EBADF; return -1; }
	g_hooks->on_close(*k);
	k->open = false; k->ever_closed = true; k->in_epoll = false; k->ep_pending = false; k->armed = false;
	if (g_kernel.close_eintr > 0 && (k->kind == FD_STREAM || k->kind == FD_TIMER)) { g_kernel.close_eintr--; if (g_hooks) g_hooks->on_file_op("close-eintr", fd); errno = EINTR; return -1; }   // interrupted by a signal: on Linux the descriptor is gone nevertheless
	return 0;
}

int sim_epoll_create(int size) { SYSCALL("epoll_create"); { int fe_ = g_hooks ? g_hooks->syscall_fault("epoll_create") : 0; if (fe_) { errno = fe_; return -1; } } (void)size; return g_kernel.alloc_fd(FD_EPOLL).fd; }
int sim_epoll_create1(int flags) { (void)flags; return sim_epoll_create(1); }


int sim_epoll_ctl(int epfd, int op, int fd, struct epoll_event *ev) {
	SYSCALL("epoll_ctl"); { int fe_ = g_hooks ? g_hooks->syscall_fault("epoll_ctl") : 0; if (fe_) { errno = fe_; return -1; } }
	KFd *e = g_kernel.get(epfd);
	if (!e || !e->open || e->kind != FD_EPOLL) {
		if (g_hooks) g_hooks->hygiene("epoll_ctl-on-non-epoll", "epoll_ctl called with a first argument that is not an open epoll descriptor of the daemon");
		errno = EBADF; return -1;
	}
	KFd *k = g_kernel.get(fd);
	if (!k || !k->open) { if (g_hooks) g_hooks->hygiene(k ? "use-after-close" : "foreign-descriptor", "epoll_ctl on a closed or unknown descriptor"); errno = EBADF; return -1; }
	if (op == EPOLL_CTL_ADD) {
		if (k->in_epoll) { errno = EEXIST; return -1; }
		if (k->kind == FD_STREAM && k->epoll_add_errno) { int er = k->epoll_add_errno; k->epoll_add_errno = 0; if (g_hooks) g_hooks->on_file_op("epoll-add-fault", er); errno = er; return -1; }
		if (!g_kernel.epoll_add_errs.empty() && k->kind == FD_TIMER) { /* only timer registrations are made to fail (DESIGN.md 4.4) */ int er = g_kernel.epoll_add_errs.front(); g_kernel.epoll_add_errs.pop_front(); if (er) { errno = er; return -1; } }
		k->in_epoll = true; k->ep_events = ev->events; k->ep_data = ev->data.u64; k->ep_owner = epfd; k->ep_pending = false;
		if (kernel_fd_ready_in(*k) || kernel_fd_ready_out(*k)) g_kernel.mark_pending(*k);
		return 0;
	}
	if (op == EPOLL_CTL_DEL) {
		if (!k->in_epoll) { errno = ENOENT; return -1; }
		k->in_epoll = false; k->ep_pending = false;
		return 0;
	}
	if (op == EPOLL_CTL_MOD) {
		if (!k->in_epoll) { errno = ENOENT; return -1; }
		k->ep_events = ev->events; k->ep_data = ev->data.u64;
		if (kernel_fd_ready_in(*k) || kernel_fd_ready_out(*k)) g_kernel.mark_pending(*k);
		return 0;
	}
	errno = EINVAL; return -1;
}

int sim_epoll_wait(int epfd, struct epoll_event *events, int maxevents, int timeout) {
	SYSCALL("epoll_wait");
	KFd *e = checked(epfd, "epoll_wait", M(FD_EPOLL));
	if (!e) return -1;
	if (!buffer_ok(events, sizeof(struct epoll_event) * (size_t)maxevents, "epoll_wait")) { errno = EFAULT; return -1; }
	return g_hooks->on_epoll_wait(epfd, events, maxevents, timeout);
}
int sim_epoll_pwait(int epfd, struct epoll_event *events, int maxevents, int timeout, const void *sigmask) { (void)sigmask; return sim_epoll_wait(epfd, events, maxevents, timeout); }

int sim_timerfd_create(int clockid, int flags) {
	SYSCALL("timerfd_create"); (void)clockid; (void)flags;
	if (!g_kernel.timerfd_create_errs.empty()) { int er = g_kernel.timerfd_create_errs.front(); g_kernel.timerfd_create_errs.pop_front(); if (er) { if (g_hooks) g_hooks->on_timer_create_failed(); errno = er; return -1; } }
	return g_kernel.alloc_fd(FD_TIMER).fd;
}

int sim_timerfd_settime(int fd, int flags, const struct itimerspec *nv, struct itimerspec *ov) {
	SYSCALL("timerfd_settime");
	KFd *k = checked(fd, "timerfd_settime", M(FD_TIMER));
	if (!k) return -1;
	if (ov) memset(ov, 0, sizeof *ov);
	if (nv->it_value.tv_nsec < 0 || nv->it_value.tv_nsec > 999999999L || nv->it_value.tv_sec < 0) { errno = EINVAL; return -1; }
	uint64_t ns = (uint64_t)nv->it_value.tv_sec * 1000000000ULL + (uint64_t)nv->it_value.tv_nsec;
	if ((flags & TFD_TIMER_ABSTIME) && ns != 0) {
		// an absolute expiry time on the clock that sim_clock_gettime() shows: what counts is its distance from now (already past: expires at once)
		uint64_t nowabs = world_vnow() + 1000ULL * 1000000000ULL;
		ns = ns > nowabs ? ns - nowabs : 1;
	}
	g_hooks->on_timer_set(*k, ns);
	return 0;
}

// ---------------------------------------------------------------- files
// A small in-memory file system. `files` is what system calls see; `dur` is what would survive a loss of power:
// data reaches it only through fsync, names through creation, rename and unlink (which are atomic and ordered).
// relative names are resolved against the working directory of the simulated process (daemon() without nochdir moves it to "/")
static std::string fs_abs(const char *p) {
	if (!p || p[0] == '/' || p[0] == '\0') return p ? p : "";   // (an abstract socket name starts with a NUL byte and is no file name)
	std::string n = p; while (n.compare(0, 2, "./") == 0) n = n.substr(2);
	return g_kernel.cwd == "/" ? "/" + n : g_kernel.cwd + "/" + n;
}
static bool fs_fault(const char *op, long &result) {
	g_kernel.fs_calls++;
	if (g_kernel.fs_fault_at == g_kernel.fs_calls) {
		const std::string &kd = g_kernel.fs_fault_kind;
		g_kernel.fs_fault_fired = true;
		if (kd == "eio") { errno = EIO; result = -1; return true; }
		if (kd == "enospc") { errno = ENOSPC; result = -1; return true; }
		if (kd == "short" && strcmp(op, "write") == 0) { result = g_kernel.fs_fault_arg; return true; }
		g_kernel.fs_fault_fired = false;
	}
	return false;
}

static void log_file(const char *op, long res, const std::vector<std::string> *torn = nullptr) {
	FileLogEntry e;
	e.op = std::string(op) + ":" + std::to_string(res);
	auto it = g_kernel.files.find(g_kernel.file_path); e.exists = it != g_kernel.files.end(); if (e.exists) e.image = it->second;
	auto d = g_kernel.dur.find(g_kernel.file_path); e.dur_exists = d != g_kernel.dur.end(); if (e.dur_exists) e.dur_image = d->second;
	if (torn) e.torn = *torn;
	e.change = g_kernel.cur_change; e.call = g_kernel.fs_calls;
	g_kernel.file_log.push_back(e);
	if (g_hooks) g_hooks->on_file_op(op, res);
}

static long file_write(KFd &k, const void *buf, size_t n) {
	long forced = 0;
	auto it = g_kernel.files.find(k.path);
	if (it == g_kernel.files.end()) { errno = EIO; return -1; }     // unlinked underneath: keep it simple
	std::string &data = it->second;
	// "cap": every write of the run is accepted only up to that many bytes (a nearly full disk, a quota, a network file system): several short writes per update
	if (g_kernel.fs_fault_kind == "cap" && g_kernel.fs_fault_arg > 0 && (long)n > g_kernel.fs_fault_arg) { n = (size_t)g_kernel.fs_fault_arg; g_kernel.fs_fault_fired = true; }
	if (fs_fault("write", forced)) {
		if (g_kernel.fs_fault_kind == "short") {
			long a = g_kernel.fs_fault_arg;                       // >0: that many bytes; -1: all but one; -2: half
			size_t m = a > 0 ? (size_t)a : a == -1 ? (n > 0 ? n - 1 : 0) : n / 2;
			if (m < 1) m = 1;
			if (m < n) n = m;
		} else { log_file("write", -1); return -1; }
	}
	// images a crash in the middle of this call could leave in the credential file (any prefix of the buffer: 1 byte, half, all but one)
	std::vector<std::string> torn;
	if (k.path == g_kernel.file_path && n > 1) {
		for (size_t m : {(size_t)1, n / 2, n - 1}) { if (m == 0 || m >= n) continue; std::string t = data; if (t.size() < k.fpos) t.resize(k.fpos, '\0'); t.replace(k.fpos, std::min(m, t.size() - k.fpos), std::string((const char *)buf, m)); torn.push_back(t); }
	}
	if (data.size() < k.fpos) data.resize(k.fpos, '\0');
	data.replace(k.fpos, std::min(n, data.size() - k.fpos), std::string((const char *)buf, n));
	k.fpos += n;
	log_file("write", (long)n, &torn);
	return (long)n;
}

int sim_open(const char *path, int flags, ...) {
	SYSCALL("open"); { int fe_ = g_hooks ? g_hooks->syscall_fault("open") : 0; if (fe_) { errno = fe_; return -1; } }
	std::string abs_ = fs_abs(path); path = abs_.c_str();
	auto it = g_kernel.files.find(path);
	bool created = false;
	if (it == g_kernel.files.end()) {
		if (!(flags & O_CREAT)) { errno = ENOENT; return -1; }
		long forced = 0;
		if (fs_fault("open", forced) && forced < 0) { log_file("open", -1); return -1; }
		g_kernel.files[path] = std::string(); g_kernel.dur[path] = std::string(); created = true;
	} else if ((flags & O_CREAT) && (flags & O_EXCL)) { errno = EEXIST; return -1; }
	if ((flags & O_TRUNC) && !created) g_kernel.files[path].clear();
	KFd &k = g_kernel.alloc_fd(FD_FILE); k.fpos = (flags & O_APPEND) ? g_kernel.files[path].size() : 0; k.path = path;
	if (created || (flags & O_TRUNC)) log_file("open", k.fd);
	return k.fd;
}
int sim_open64(const char *path, int flags, ...) { return sim_open(path, flags, 0600); }
int sim_creat(const char *path, mode_t mode) { (void)mode; return sim_open(path, O_CREAT | O_WRONLY | O_TRUNC, 0600); }

off_t sim_lseek(int fd, off_t off, int whence) {
	SYSCALL("lseek");
	KFd *k = checked(fd, "lseek", M(FD_FILE));
	if (!k) return -1;
	auto it = g_kernel.files.find(k->path);
	long size = it == g_kernel.files.end() ? 0 : (long)it->second.size();
	long base = whence == SEEK_SET ? 0 : whence == SEEK_CUR ? (long)k->fpos : size;
	if (base + off < 0) { errno = EINVAL; return -1; }
	k->fpos = (size_t)(base + off);
	return (off_t)k->fpos;
}

int sim_ftruncate(int fd, off_t len) {
	SYSCALL("ftruncate");
	KFd *k = checked(fd, "ftruncate", M(FD_FILE));
	if (!k) return -1;
	long forced = 0;
	if (fs_fault("ftruncate", forced) && forced < 0) { log_file("ftruncate", -1); return -1; }
	auto it = g_kernel.files.find(k->path);
	if (it != g_kernel.files.end()) it->second.resize((size_t)len, '\0');
	log_file("ftruncate", 0);
	return 0;
}

int sim_fsync(int fd) {
	SYSCALL("fsync");
	KFd *k = checked(fd, "fsync", M(FD_FILE));
	if (!k) return -1;
	long f = 0;
	if (fs_fault("fsync", f) && f < 0) { log_file("fsync", -1); return -1; }
	auto it = g_kernel.files.find(k->path);
	if (it != g_kernel.files.end() && g_kernel.dur.count(k->path)) g_kernel.dur[k->path] = it->second;
	log_file("fsync", 0);
	return 0;
}
int sim_fdatasync(int fd) { return sim_fsync(fd); }

void *sim_mmap(void *addr, size_t len, int prot, int flags, int fd, off_t off) {
	SYSCALL("mmap"); (void)addr; (void)prot; (void)flags;
	KFd *k = checked(fd, "mmap", M(FD_FILE));
	if (!k) return MAP_FAILED;
	if (len == 0) { errno = EINVAL; return MAP_FAILED; }
	size_t padded = (len + 4095) & ~(size_t)4095;   // the rest of the last page reads as zero; a page multiple has no padding
	void *p = g_arena.alloc(padded, true);
	if (!p) { errno = ENOMEM; return MAP_FAILED; }
	auto it = g_kernel.files.find(k->path);
	static const std::string empty;
	const std::string &data = it == g_kernel.files.end() ? empty : it->second;
	size_t avail = data.size() > (size_t)off ? data.size() - (size_t)off : 0;
	memcpy(p, data.data() + off, avail < len ? avail : len);
	return p;
}

int sim_munmap(void *p, size_t len) { SYSCALL("munmap"); (void)len; if (g_arena.owns(p)) g_arena.release(p); return 0; }

char *sim_realpath(const char *path, char *resolved) {
	SYSCALL("realpath");
	std::string abs_ = fs_abs(path); path = abs_.c_str();
	if (!g_kernel.files.count(path)) { errno = ENOENT; return nullptr; }
	if (resolved) { strcpy(resolved, path); return resolved; }
	char *r = (char *)g_arena.alloc(strlen(path) + 1, false);
	if (!r) return nullptr;
	strcpy(r, path);
	return r;
}

int sim_unlink(const char *path) {
	SYSCALL("unlink");
	std::string abs_ = fs_abs(path); path = abs_.c_str();
	if (!g_kernel.files.count(path)) { errno = ENOENT; return -1; }   // also the daemon's unlink of its (abstract) socket name
	long f = 0;
	if (fs_fault("unlink", f) && f < 0) { log_file("unlink", -1); return -1; }
	g_kernel.files.erase(path); g_kernel.dur.erase(path);
	log_file("unlink", 0);
	return 0;
}

int sim_rename(const char *a, const char *b) {
	SYSCALL("rename");
	std::string absa_ = fs_abs(a), absb_ = fs_abs(b); a = absa_.c_str(); b = absb_.c_str();
	auto it = g_kernel.files.find(a);
	if (it == g_kernel.files.end()) { errno = ENOENT; return -1; }
	long f = 0;
	if (fs_fault("rename", f) && f < 0) { log_file("rename", -1); return -1; }
	g_kernel.files[b] = it->second; g_kernel.files.erase(a);
	auto d = g_kernel.dur.find(a);
	if (d != g_kernel.dur.end()) { g_kernel.dur[b] = d->second; g_kernel.dur.erase(a); } else g_kernel.dur.erase(b);
	for (auto &k : g_kernel.fds) if (k.open && k.kind == FD_FILE && k.path == a) k.path = b;
	log_file("rename", 0);
	return 0;
}

int sim_fstat(int fd, struct stat *st) {
	SYSCALL("fstat");
	KFd *k = checked(fd, "fstat", ~0);
	if (!k) return -1;
	memset(st, 0, sizeof *st);
	if (k->kind == FD_FILE) { auto it = g_kernel.files.find(k->path); st->st_size = it == g_kernel.files.end() ? 0 : (off_t)it->second.size(); st->st_mode = S_IFREG | 0600; }
	else st->st_mode = S_IFSOCK | 0600;
	st->st_uid = 1000; st->st_gid = 1000; st->st_nlink = 1;
	return 0;
}
int sim_fchmod(int fd, mode_t m) { SYSCALL("fchmod"); (void)m; return checked(fd, "fchmod", M(FD_FILE)) ? 0 : -1; }
int sim_fchown(int fd, uid_t u, gid_t g) { SYSCALL("fchown"); (void)u; (void)g; return checked(fd, "fchown", M(FD_FILE)) ? 0 : -1; }

// ---------------------------------------------------------------- misc
typedef void (*sighandler_fn)(int);
sighandler_fn sim_signal(int sig, sighandler_fn h) {
	SYSCALL("signal");
	sighandler_fn old = SIG_DFL;
	if (sig == SIGTERM) { old = g_kernel.sigterm_handler ? g_kernel.sigterm_handler : SIG_DFL; g_kernel.sigterm_handler = (h == SIG_DFL || h == SIG_IGN) ? nullptr : h; }
	else if (sig == SIGINT) { old = g_kernel.sigint_handler ? g_kernel.sigint_handler : SIG_DFL; g_kernel.sigint_handler = (h == SIG_DFL || h == SIG_IGN) ? nullptr : h; }
	return old;
}
int sim_sigaction(int sig, const struct sigaction *act, struct sigaction *old) {
	if (old) memset(old, 0, sizeof *old);
	if (act) sim_signal(sig, act->sa_handler);
	return 0;
}

void sim_syslog(int pri, const char *fmt, ...) {
	SYSCALL("syslog");
	char buf[1024];
	va_list ap; va_start(ap, fmt); vsnprintf(buf, sizeof buf, fmt, ap); va_end(ap);
	if (g_hooks) g_hooks->on_log(pri, buf);
}
void sim_vsyslog(int pri, const char *fmt, va_list ap) {
	char buf[1024]; vsnprintf(buf, sizeof buf, fmt, ap);
	if (g_hooks) g_hooks->on_log(pri, buf);
}
void sim_openlog(const char *a, int b, int c) { (void)a; (void)b; (void)c; }
void sim_closelog(void) {}

static ssize_t ur_read(void *cookie, char *buf, size_t n) {
	(void)cookie;
	for (size_t i = 0; i < n; i++) buf[i] = (char)(xs(g_kernel.urandom_state) >> 24);
	return (ssize_t)n;
}
static int ur_close(void *cookie) { (void)cookie; return 0; }

FILE *sim_fopen(const char *path, const char *mode) {
	SYSCALL("fopen");
	if (strcmp(path, "/dev/urandom") == 0 || strcmp(path, "/dev/random") == 0) {
		cookie_io_functions_t io; memset(&io, 0, sizeof io); io.read = ur_read; io.close = ur_close;
		FILE *f = fopencookie(nullptr, mode, io);
		if (f) setvbuf(f, nullptr, _IONBF, 0);
		return f;
	}
	errno = ENOENT; return nullptr;
}

int sim_getaddrinfo(const char *node, const char *service, const struct addrinfo *hints, struct addrinfo **res) {
	SYSCALL("getaddrinfo"); (void)hints;
	bool v6 = node && strchr(node, ':') != nullptr;
	size_t sz = sizeof(struct addrinfo) + sizeof(struct sockaddr_in6);
	unsigned char *mem = (unsigned char *)g_arena.alloc(sz, true);
	if (!mem) return EAI_MEMORY;
	struct addrinfo *ai = (struct addrinfo *)mem;
	ai->ai_family = v6 ? AF_INET6 : AF_INET; ai->ai_socktype = SOCK_STREAM; ai->ai_protocol = 0;
	ai->ai_addr = (struct sockaddr *)(mem + sizeof(struct addrinfo));
	int port = service ? atoi(service) : 0;
	if (v6) { auto *a = (struct sockaddr_in6 *)ai->ai_addr; a->sin6_family = AF_INET6; a->sin6_port = htons(port); inet_pton(AF_INET6, node, &a->sin6_addr); ai->ai_addrlen = sizeof *a; }
	else { auto *a = (struct sockaddr_in *)ai->ai_addr; a->sin_family = AF_INET; a->sin_port = htons(port); inet_pton(AF_INET, node ? node : "0.0.0.0", &a->sin_addr); ai->ai_addrlen = sizeof *a; }
	*res = ai;
	return 0;
}
void sim_freeaddrinfo(struct addrinfo *ai) { SYSCALL("freeaddrinfo"); if (ai) g_arena.release(ai); }

struct passwd *sim_getpwnam(const char *name) { SYSCALL("getpwnam"); static struct passwd pw; static char nm[] = "cjet"; (void)name; pw.pw_name = nm; pw.pw_uid = 1000; pw.pw_gid = 1000; return &pw; }
int sim_setuid(uid_t u) { SYSCALL("setuid"); (void)u; return 0; }
int sim_setgid(gid_t g) { SYSCALL("setgid"); (void)g; return 0; }
int sim_daemon(int a, int b) { SYSCALL("daemon"); (void)b; if (a == 0) g_kernel.cwd = "/"; return 0; }

int sim_clock_gettime(clockid_t id, struct timespec *ts) { SYSCALL("clock_gettime"); (void)id; uint64_t n = world_vnow(); ts->tv_sec = (time_t)(n / 1000000000ULL) + 1000; ts->tv_nsec = (long)(n % 1000000000ULL); return 0; }

} // extern "C"
