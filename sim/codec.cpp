// Harness-side codecs written for the simulator (no code shared with the daemon): SHA-1, base64, raw framing, RFC 6455 frames.
#include "world.h"
#include <cstring>
#include <cstdio>

std::string sha1(const std::string &in) {
	uint32_t h0 = 0x67452301, h1 = 0xEFCDAB89, h2 = 0x98BADCFE, h3 = 0x10325476, h4 = 0xC3D2E1F0;
	std::string m = in;
	uint64_t ml = (uint64_t)in.size() * 8;
	m += (char)0x80;
	while (m.size() % 64 != 56) m += (char)0;
	for (int i = 7; i >= 0; i--) m += (char)((ml >> (i * 8)) & 0xff);
	auto rol = [](uint32_t v, int s) { return (v << s) | (v >> (32 - s)); };
	for (size_t off = 0; off < m.size(); off += 64) {
		uint32_t w[80];
		for (int i = 0; i < 16; i++) w[i] = ((uint32_t)(unsigned char)m[off + 4 * i] << 24) | ((uint32_t)(unsigned char)m[off + 4 * i + 1] << 16) | ((uint32_t)(unsigned char)m[off + 4 * i + 2] << 8) | (uint32_t)(unsigned char)m[off + 4 * i + 3];
		for (int i = 16; i < 80; i++) w[i] = rol(w[i - 3] ^ w[i - 8] ^ w[i - 14] ^ w[i - 16], 1);
		uint32_t a = h0, b = h1, c = h2, d = h3, e = h4;
		for (int i = 0; i < 80; i++) {
			uint32_t f, k;
			if (i < 20) { f = (b & c) | (~b & d); k = 0x5A827999; }
			else if (i < 40) { f = b ^ c ^ d; k = 0x6ED9EBA1; }
			else if (i < 60) { f = (b & c) | (b & d) | (c & d); k = 0x8F1BBCDC; }
			else { f = b ^ c ^ d; k = 0xCA62C1D6; }
			uint32_t t = rol(a, 5) + f + e + k + w[i];
			e = d; d = c; c = rol(b, 30); b = a; a = t;
		}
		h0 += a; h1 += b; h2 += c; h3 += d; h4 += e;
	}
	std::string out;
	for (uint32_t h : {h0, h1, h2, h3, h4}) for (int i = 3; i >= 0; i--) out += (char)((h >> (i * 8)) & 0xff);
	return out;
}

std::string b64(const std::string &in) {
	static const char *tb = "ABCDEFGHIJKLMNOPQRSTUVWXYZabcdefghijklmnopqrstuvwxyz0123456789+/";
	std::string out;
	size_t i = 0;
	for (; i + 2 < in.size(); i += 3) {
		uint32_t v = ((unsigned char)in[i] << 16) | ((unsigned char)in[i + 1] << 8) | (unsigned char)in[i + 2];
		out += tb[(v >> 18) & 63]; out += tb[(v >> 12) & 63]; out += tb[(v >> 6) & 63]; out += tb[v & 63];
	}
	if (i + 1 == in.size()) { uint32_t v = (unsigned char)in[i] << 16; out += tb[(v >> 18) & 63]; out += tb[(v >> 12) & 63]; out += "=="; }
	else if (i + 2 == in.size()) { uint32_t v = ((unsigned char)in[i] << 16) | ((unsigned char)in[i + 1] << 8); out += tb[(v >> 18) & 63]; out += tb[(v >> 12) & 63]; out += tb[(v >> 6) & 63]; out += '='; }
	return out;
}

std::string ws_accept_for(const std::string &key) { return b64(sha1(key + "258EAFA5-E914-47DA-95CA-C5AB0DC85B11")); }

std::string hexenc(const std::string &s) {
	static const char *hx = "0123456789abcdef"; std::string o;
	for (unsigned char c : s) { o += hx[c >> 4]; o += hx[c & 15]; }
	return o;
}
std::string hexdec(const std::string &s) {
	std::string o; auto v = [](char c) { return c >= '0' && c <= '9' ? c - '0' : c >= 'a' && c <= 'f' ? c - 'a' + 10 : c >= 'A' && c <= 'F' ? c - 'A' + 10 : 0; };
	for (size_t i = 0; i + 1 < s.size(); i += 2) o += (char)((v(s[i]) << 4) | v(s[i + 1]));
	return o;
}

std::string raw_frame(const std::string &payload) {
	std::string o; uint32_t n = (uint32_t)payload.size();
	o += (char)(n >> 24); o += (char)(n >> 16); o += (char)(n >> 8); o += (char)n;
	return o + payload;
}

// lenenc: 0 minimal, 1 force 16-bit, 2 force 64-bit
std::string ws_frame(int opcode, const std::string &payload, bool fin, bool masked, uint32_t mask, int rsv, int lenenc) {
	std::string o;
	o += (char)((fin ? 0x80 : 0) | ((rsv & 7) << 4) | (opcode & 15));
	size_t n = payload.size();
	unsigned char mb = masked ? 0x80 : 0;
	if (lenenc == 0 && n < 126) o += (char)(mb | n);
	else if (lenenc <= 1 && n < 65536) { o += (char)(mb | 126); o += (char)(n >> 8); o += (char)n; }
	else { o += (char)(mb | 127); for (int i = 7; i >= 0; i--) o += (char)(((uint64_t)n >> (i * 8)) & 0xff); }
	if (masked) {
		unsigned char mk[4] = {(unsigned char)(mask >> 24), (unsigned char)(mask >> 16), (unsigned char)(mask >> 8), (unsigned char)mask};
		o.append((char *)mk, 4);
		for (size_t i = 0; i < n; i++) o += (char)((unsigned char)payload[i] ^ mk[i % 4]);
	} else o += payload;
	return o;
}

std::string ws_handshake(const std::string &target, const std::string &key, const std::string &protocol, const std::string &extra) {
	std::string r = "GET " + target + " HTTP/1.1\r\nHost: jet.example\r\nUpgrade: websocket\r\nConnection: Upgrade\r\nSec-WebSocket-Key: " + key + "\r\nSec-WebSocket-Version: 13\r\n";
	if (!protocol.empty()) r += "Sec-WebSocket-Protocol: " + protocol + "\r\n";
	r += extra;
	r += "\r\n";
	return r;
}

std::string ascii_safe(const std::string &s) {
	std::string o; char b[8];
	for (unsigned char c : s) { if ((c >= 0x20 && c < 0x7f) || c == '\n' || c == '\t') o += (char)c; else { snprintf(b, sizeof b, "\\x%02x", c); o += b; } }
	return o;
}

bool valid_utf8(const std::string &s) {
	size_t i = 0, n = s.size();
	while (i < n) {
		unsigned char c = s[i];
		if (c == 0) return false;
		size_t len = c < 0x80 ? 1 : (c >> 5) == 6 ? 2 : (c >> 4) == 14 ? 3 : (c >> 3) == 30 ? 4 : 0;
		if (!len || i + len > n) return false;
		for (size_t k = 1; k < len; k++) if (((unsigned char)s[i + k] & 0xC0) != 0x80) return false;
		i += len;
	}
	return true;
}
