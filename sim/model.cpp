// Reference model of the Jet protocol as the properties describe it (DESIGN.md Appendix A/B).
// Not a transcription of the daemon: a map of elements, fetch rules, in-flight routed requests, credentials.
#include "world.h"
#include <cstring>
#include <cmath>
#include <algorithm>

static std::string lower_ascii(const std::string &s) {
	std::string r = s;
	for (auto &ch : r) if (ch >= 'A' && ch <= 'Z') ch = (char)(ch - 'A' + 'a');
	return r;
}

bool id_equal(const JV &a, const JV &b) {
	if (a.t != b.t) return false;
	if (a.t == JV::Str) return a.s == b.s;
	if (a.t == JV::Num) return a.d == b.d || std::fabs(a.d - b.d) <= 4.5e-16 * std::max(std::fabs(a.d), std::fabs(b.d));
	return false;
}

bool Rule::matches(const std::string &path_in) const {
	if (all) return true;
	std::string path = ci ? lower_ascii(path_in) : path_in;
	for (auto &m : ms) {
		std::vector<std::string> ops;
		for (auto &o : m.ops) ops.push_back(ci ? lower_ascii(o) : o);
		const std::string &o = ops.empty() ? path : ops[0];
		bool ok = true;
		if (m.name == "equals") ok = (path == o);
		else if (m.name == "equalsNot") ok = (path != o);
		else if (m.name == "startsWith") ok = path.size() >= o.size() && path.compare(0, o.size(), o) == 0;
		else if (m.name == "endsWith") ok = path.size() >= o.size() && path.compare(path.size() - o.size(), o.size(), o) == 0;
		else if (m.name == "contains") ok = path.find(o) != std::string::npos;
		else if (m.name == "containsAllOf") { for (auto &x : ops) if (path.find(x) == std::string::npos) ok = false; }
		if (!ok) return false;
	}
	return true;
}

int parse_rule(const JV *po, int max_matchers, Rule &out) {
	out = Rule();
	if (!po) { out.all = true; return 0; }
	if (po->t != JV::Obj) return 1;
	int nci = 0; bool ci_conflict = false;
	static const char *names[] = {"equals", "equalsNot", "startsWith", "endsWith", "contains", "containsAllOf"};
	int count = 0;
	bool refused = false;
	for (auto &kv : po->o) {
		if (kv.first == "caseInsensitive") { bool v = (kv.second.t == JV::Bool && kv.second.b); if (nci > 0 && v != out.ci) ci_conflict = true; if (nci == 0) out.ci = v; nci++; continue; }
		count++;
		bool known = false;
		for (auto n : names) if (kv.first == n) known = true;
		if (!known) { refused = true; continue; }
		Rule::M m; m.name = kv.first;
		if (kv.first == "containsAllOf") {
			if (kv.second.t != JV::Arr) { refused = true; continue; }
			if (kv.second.a.empty()) return 3; // statement is silent
			for (auto &e : kv.second.a) { if (e.t != JV::Str) refused = true; else m.ops.push_back(e.s); }
		} else {
			if (kv.second.t != JV::Str) { refused = true; continue; }
			m.ops.push_back(kv.second.s);
		}
		out.ms.push_back(m);
	}
	if (count == 0 && nci <= 1) return 1;    // "no matcher in path object"
	if (count > max_matchers) return 1;
	if (refused) return 1;
	if (nci > 1) return ci_conflict || count == 0 ? 3 : 2;      // repeated option key: either refused or as given once
	return 0;
}

std::string Exp::describe() const {
	std::string s;
	switch (kind) {
	case RESP: {
		static const char *rn[] = {"result:true", "daemon-error", "result==", "error==", "result|error", "any-result", "get-set", "error|get-set", "result:true|error (delivery to a faulty peer)"};
		s = "RESP id=" + id.dump() + " " + rn[rk];
		if (rk == R_RESULT_EQ || rk == R_ERROR_EQ || rk == R_GETSET || rk == R_ERR_OR_GETSET) s += payload.dump();
		break; }
	case NOTIFY: s = "NOTIFY fetch=" + fetchid.dump() + " " + event + " path=" + json_escape(path) + (check_value && has_value ? " value=" + value.dump() : ""); break;
	case ROUTED: s = "ROUTED method=" + json_escape(path) + " params=" + params.dump(); break;
	case CLOSE: s = "CLOSE"; if (ws_status) s += " with close frame status " + (ws_status == 10027 ? std::string("1002 or 1007") : std::to_string(ws_status)); else if (need_frame) s += " after a close frame"; break;
	case PONG: s = "PONG payload=" + hexenc(path); break;
	}
	if (!why.empty()) s += " [" + why + "]";
	if (optional) s += " (optional)";
	return s;
}

// ------------------------------------------------------------------ model
void Model::on_connect(int c, const std::string &transport, bool local) {
	Peer p; p.c = c; p.alive = true; p.local = local; p.transport = transport;
	peers[c] = p;
}

bool Model::visible(const Peer &p, const Elem &e) const {
	if (!have_creds) return true;
	for (auto &g : e.fg) if (p.fg.count(g)) return true;
	return false;
}

bool Model::decision_pending() const {
	for (auto &d : decisions) if (d.state == 0 && !d.silent_refusal && !d.silent_accept) return true;
	return false;
}

std::vector<int> Model::silent_decisions() const {
	std::vector<int> r;
	for (size_t i = 0; i < decisions.size(); i++) if (decisions[i].state == 0 && (decisions[i].silent_refusal || decisions[i].silent_accept)) r.push_back((int)i);
	return r;
}

int Model::pending_routed() const {
	int n = 0; for (auto &r : routed) if (r.state == 0) n++; return n;
}

bool Model::has_unbound_routed() const {
	for (auto &r : routed) if (r.state == 0 && r.timerfd == -1) return true;
	return false;
}

void Model::resolve_decision(int d, bool ok) {
	if (d < 0 || d >= (int)decisions.size() || decisions[d].state != 0) return;
	decisions[d].state = ok ? 1 : 2;
	if (decisions[d].commit) decisions[d].commit(ok);
}

void Model::respond(int c, const JV &req, Exp::RK rk, const std::string &prop, const std::string &why, const JV &payload) {
	const JV *id = req.get("id");
	if (!id) return;
	if (id->t != JV::Str && id->t != JV::Num) return; // only string or numeric ids are answered
	Exp e; e.kind = Exp::RESP; e.rk = rk; e.id = *id; e.payload = payload; e.prop = prop; e.why = why; e.group = group_ctr; e.rank = 1;
	host->expect(c, e);
}

void Model::notify(const Elem &e, const char *event, int only_peer, const JV *only_fetch, int rank) {
	std::string ev = event;
	for (auto &pp : peers) {
		Peer &p = pp.second;
		if (!p.alive) continue;
		if (only_peer >= 0 && p.c != only_peer) continue;
		for (auto &f : p.fetches) {
			if (only_fetch && !id_equal(f.id, *only_fetch)) continue;
			bool send = false;
			if (ev == "add") {
				if (visible(p, e) && f.rule.matches(e.path) && !f.reported.count(e.path)) { f.reported.insert(e.path); send = true; }
			} else if (f.reported.count(e.path)) {
				send = true;
				if (ev == "remove") f.reported.erase(e.path);
			}
			if (!send) continue;
			if (!host->observable(p.c)) notify_hit_unobservable = true;
			Exp x; x.kind = Exp::NOTIFY; x.fetchid = f.id; x.event = ev; x.path = e.path; x.prop = notify_prop;
			x.has_value = e.is_state; x.value = e.value; x.check_value = e.is_state && ev != "remove";
			x.group = group_ctr; x.rank = rank; x.why = ev + " of " + e.path;
			if (opt_decision >= 0) { x.optional = true; x.decision = opt_decision; }
			host->expect(p.c, x);
		}
	}
}

void Model::remove_elem(const std::string &path) {
	auto it = elems.find(path);
	if (it == elems.end()) return;
	notify(it->second, "remove");
	elems.erase(it);
}

static bool get_timeout(const JV &params, double &out_s, bool &present) {
	const JV *t = params.get("timeout");
	present = false;
	if (!t) return true;
	if (t->t != JV::Num) return false;
	if (t->d < 0.001) return false;
	present = true; out_s = t->d;
	return true;
}

static std::set<std::string> group_names(const JV *access, const char *key, const std::set<std::string> &all) {
	std::set<std::string> r;
	if (!access) return r;
	const JV *g = access->get(key);
	if (!g || g->t != JV::Arr) return r;
	for (auto &x : g->a) if (x.t == JV::Str && all.count(x.s)) r.insert(x.s);
	return r;
}

bool Model::do_add(int c, const JV &req, const JV &params) {
	Peer &p = peers[c];
	if (add_local_only && !p.local) { host->probe("add_from_foreign_origin"); respond(c, req, Exp::R_ERR_DAEMON, "C08", "add from non-local origin"); return true; }
	const JV *path = params.get("path");
	if (!path || path->t != JV::Str) { respond(c, req, Exp::R_ERR_DAEMON, "C04", "add without string path"); return true; }
	const JV *fo = params.get("fetchOnly");
	bool fetch_only = false;
	if (fo) {
		if (fo->t != JV::Bool) { respond(c, req, Exp::R_ERR_DAEMON, "C04", "fetchOnly not bool"); return true; }
		fetch_only = fo->b;
	}
	double to = default_timeout_s; bool tp;
	if (!get_timeout(params, to, tp)) { respond(c, req, Exp::R_ERR_DAEMON, "C14", "add with invalid timeout"); return true; }
	if (elems.count(path->s)) { host->probe("add_existing_path"); respond(c, req, Exp::R_ERR_DAEMON, "C04", "add of existing path"); return true; }
	const JV *access = params.get("access");
	if (access && access->t == JV::Obj) {
		for (const char *k : {"fetchGroups", "setGroups", "callGroups"}) {
			const JV *g = access->get(k);
			bool relevant = strcmp(k, "fetchGroups") == 0 || (strcmp(k, "setGroups") == 0) == (params.get("value") != nullptr);
			if (g && g->t != JV::Arr && relevant) { respond(c, req, Exp::R_ERR_DAEMON, "C08", "access groups not an array"); return true; }
		}
	}
	Elem e; e.path = path->s; e.owner = c; e.fetch_only = fetch_only; e.timeout_s = to; e.serial = ++serial_ctr;
	const JV *v = params.get("value");
	if (v) { e.is_state = true; e.value = *v; }
	e.fg = group_names(access, "fetchGroups", all_groups);
	e.sg = group_names(access, "setGroups", all_groups);
	e.cg = group_names(access, "callGroups", all_groups);
	if (path->s.empty()) host->probe("empty_path");
	bool either = allow_either_add && (long)elems.size() >= (1L << (g_variant.element_order - 1));
	if (add_local_only) host->probe("add_from_local_origin");   // loopback and local-socket origins are the ones add is accepted from: no special treatment
	if (faulty_add_either && !host->observable(c)) { either = true; host->probe("add_by_faulty_peer"); }   // the add of a peer that cannot be served may fail on its own notification; what the others are told decides // the statement only says add is accepted *only* from local origins: a local origin may still be refused
	elems[e.path] = e;
	if (!either) {
		notify_hit_unobservable = false;
		notify(e, "add");
		respond(c, req, notify_hit_unobservable ? Exp::R_OK_OR_ERR : Exp::R_TRUE, add_local_only ? "C08" : "C04", std::string(add_local_only ? "add from a local origin, of free path " : "add of free path ") + e.path);
		return true;
	}
	// capacity reached: the daemon may refuse with an internal error; follow its answer
	host->probe("index_full_possible");
	int d = (int)decisions.size();
	Decision dec; dec.what = "add at capacity " + e.path;
	std::string pth = e.path;
	dec.commit = [this, pth](bool ok) {
		if (ok) return;
		// refused: the element never existed; subscribers must not have been told (world checks the optional items)
		auto it = elems.find(pth);
		if (it != elems.end()) {
			for (auto &pp : peers) for (auto &f : pp.second.fetches) f.reported.erase(pth);
			elems.erase(it);
		}
		host->probe("index_full_on_add");
	};
	decisions.push_back(dec);
	// notifications are optional until the decision is known
	struct Tmp : ModelHost { ModelHost *h; int d; void expect(int cc, const Exp &x) override { Exp y = x; y.optional = true; y.decision = d; h->expect(cc, y); }
		uint64_t vnow() override { return h->vnow(); } void probe(const std::string &n) override { h->probe(n); }
		void violation(const std::string &a, const std::string &b, const std::string &cc) override { h->violation(a, b, cc); }
		void harness_error(const std::string &w) override { h->harness_error(w); } } tmp;
	tmp.h = host; tmp.d = d;
	ModelHost *save = host; host = &tmp;
	notify(elems[pth], "add");
	host = save;
	const JV *id = req.get("id");
	if (!host->observable(c)) {
		// the requester's stream cannot be observed any more: a notification to a subscriber proves acceptance, silence counts as refusal
		decisions[d].silent_refusal = true;
	} else if (id && (id->t == JV::Str || id->t == JV::Num)) {
		Exp x; x.kind = Exp::RESP; x.rk = Exp::R_EITHER; x.id = *id; x.prop = "C04"; x.why = "add at capacity"; x.group = group_ctr; x.rank = 1; x.decision = d;
		host->expect(c, x);
	} else {
		host->harness_error("add without id at the capacity bound is not decidable from outside; the generator must not produce it");
	}
	if (faulty_add_either && !host->observable(c)) decisions[d].silent_refusal = true;
	return true;
}

bool Model::do_remove(int c, const JV &req, const JV &params) {
	const JV *path = params.get("path");
	if (!path || path->t != JV::Str) { respond(c, req, Exp::R_ERR_DAEMON, "C04", "remove without string path"); return true; }
	auto it = elems.find(path->s);
	if (it == elems.end() || it->second.owner != c) {
		if (it != elems.end()) host->probe("remove_not_owner");
		respond(c, req, Exp::R_ERR_DAEMON, "C04", "remove of foreign/unknown path"); return true;
	}
	notify_hit_unobservable = false;
	remove_elem(path->s);
	respond(c, req, notify_hit_unobservable ? Exp::R_OK_OR_ERR : Exp::R_TRUE, "C04", "remove by owner");
	return true;
}

bool Model::do_change(int c, const JV &req, const JV &params) {
	const JV *path = params.get("path");
	if (!path || path->t != JV::Str) { respond(c, req, Exp::R_ERR_DAEMON, "C04", "change without string path"); return true; }
	const JV *v = params.get("value");
	if (!v) { respond(c, req, Exp::R_ERR_DAEMON, "C04", "change without value"); return true; }
	auto it = elems.find(path->s);
	if (it == elems.end()) { respond(c, req, Exp::R_ERR_DAEMON, "C04", "change of unknown path"); return true; }
	if (it->second.owner != c) { host->probe("change_not_owner"); respond(c, req, Exp::R_ERR_DAEMON, "C04", "change by non-owner"); return true; }
	if (!it->second.is_state) { host->probe("change_on_method"); respond(c, req, Exp::R_ERR_DAEMON, "C04", "change on method"); return true; }
	it->second.value = *v;
	notify_hit_unobservable = false;
	notify(it->second, "change");
	respond(c, req, notify_hit_unobservable ? Exp::R_OK_OR_ERR : Exp::R_TRUE, "C04", "change by owner");
	return true;
}

bool Model::do_setcall(int c, const JV &req, const JV &params, bool is_call) {
	Peer &p = peers[c];
	const JV *path = params.get("path");
	if (!path || path->t != JV::Str) { respond(c, req, Exp::R_ERR_DAEMON, "C04", "set/call without string path"); return true; }
	auto it = elems.find(path->s);
	if (it == elems.end()) { respond(c, req, Exp::R_ERR_DAEMON, "C04", "set/call of unknown path"); return true; }
	Elem &e = it->second;
	if (e.fetch_only) { host->probe("set_on_fetchonly"); respond(c, req, Exp::R_ERR_DAEMON, "C04", "set on fetch-only"); return true; }
	if (is_call == e.is_state) { host->probe("setcall_wrong_kind"); respond(c, req, Exp::R_ERR_DAEMON, "C04", "set on method / call on state"); return true; }
	if (have_creds) {
		bool ok = false;
		for (auto &g : (is_call ? e.cg : e.sg)) if ((is_call ? p.cg : p.sg).count(g)) ok = true;
		if (!ok) { host->probe("setcall_unauthorized"); respond(c, req, Exp::R_ERR_DAEMON, "C08", "set/call not authorised"); return true; }
		host->probe("setcall_authorized");
	}
	const JV *id = req.get("id");
	if (id && id->t != JV::Str && id->t != JV::Num) return true; // refused, and never answered (no usable id)
	const JV *val = nullptr;
	if (!is_call) {
		val = params.get("value");
		if (!val) { respond(c, req, Exp::R_ERR_DAEMON, "C04", "set without value"); return true; }
	} else val = params.get("args");
	double to = e.timeout_s; bool tp; std::string tprec = "element";
	if (!get_timeout(params, to, tp)) { host->probe("timeout_refused"); respond(c, req, Exp::R_ERR_DAEMON, "C14", "invalid request timeout"); return true; }
	if (tp) tprec = "request"; else if (e.timeout_s == default_timeout_s) tprec = "default";

	Routed r; r.caller = c; r.owner = e.owner; r.has_id = id != nullptr; if (id) r.caller_id = *id;
	r.path = e.path; r.is_call = is_call; r.created = host->vnow(); r.tprec = tprec;
	r.timeout_ns = to * 1e9 >= 1.8e19 ? UINT64_MAX : (uint64_t)(to * 1e9); r.deadline = r.timeout_ns > (1ULL << 62) ? (1ULL << 62) + r.created : r.created + r.timeout_ns;
	if (is_call) r.params = val ? *val : JV::obj();
	else { r.params = JV::obj(); r.params.set("value", *val); }
	int ref = (int)routed.size();
	int inflight = 0; for (auto &x : routed) if (x.state == 0 && x.owner == e.owner) inflight++;
	bool either = (allow_either_route && inflight >= (1 << (g_variant.routing_order - 1))) || route_may_fail || !host->observable(e.owner);
	if (!host->observable(e.owner)) host->probe("routed_to_faulty_owner");
	routed.push_back(r);
	host->probe(std::string("timeout_precedence:") + tprec);
	if (c == e.owner) host->probe("self_routed");
	Exp x; x.kind = Exp::ROUTED; x.path = e.path; x.params = r.params; x.routed_ref = ref; x.prop = "C03"; x.group = group_ctr; x.rank = 0;
	x.why = std::string(is_call ? "call " : "set ") + e.path;
	if (!either) { host->expect(e.owner, x); return true; }
	host->probe("routing_table_full_possible");
	int d = (int)decisions.size();
	Decision dec; dec.what = "route at capacity#" + std::to_string(ref);
	dec.commit = [this, ref](bool ok) { if (!ok) { routed[ref].state = 5; host->probe("routing_table_full"); } };
	dec.silent_refusal = !r.has_id || !host->observable(c); // a caller without id (or one that is gone) is told nothing: absence of the routed frame is the refusal
	if (!host->observable(e.owner) && host->observable(c) && r.has_id) { dec.silent_refusal = false; dec.silent_accept = true; } // owner's stream cannot be observed: absence of a refusal is the acceptance
	decisions.push_back(dec);
	x.optional = true; x.decision = d;
	host->expect(e.owner, x);
	if (r.has_id) {
		Exp y; y.kind = Exp::RESP; y.rk = Exp::R_ERR_DAEMON; y.id = r.caller_id; y.prop = "C03"; y.group = group_ctr; y.rank = 0; y.optional = true; y.decision = d;
		y.why = "immediate refusal at in-flight limit";
		host->expect(c, y);
	}
	return true;
}

bool Model::do_reply(int c, const JV &req, bool is_error) {
	const JV *id = req.get("id");
	if (!id || id->t != JV::Str) return false; // the daemon drops a peer that sends a response without a string id
	const JV *payload = req.get(is_error ? "error" : "result");
	// which routed frame this answer was written for (the harness's owners put a unique token into every answer)
	int answered_ref = -1;
	if (payload) { std::string tok = payload->t == JV::Obj ? payload->gets("tok") : ""; if (tok.empty() && payload->t == JV::Obj) { std::string m = payload->gets("message"); size_t sp = m.rfind(' '); if (sp != std::string::npos) tok = m.substr(sp + 1); } auto ri = reply_instance.find(tok); if (ri != reply_instance.end()) answered_ref = ri->second; }
	for (size_t ix = 0; ix < routed.size(); ix++) {
		Routed &r = routed[ix];
		if (r.state != 0 || !r.rid_known || r.rid != id->s || r.owner != c) continue;
		if (answered_ref >= 0 && answered_ref != (int)ix) {
			// the answer was written for an earlier request that is no longer in flight (it timed out) and merely carries an id the daemon has issued again:
			// "a reply that arrives after the timeout answer is discarded without any effect"
			host->probe("late_reply_carries_reissued_id");
			return true;
		}
		r.state = 1;
		host->probe("owner_replied");
		if (r.has_id && peers[r.caller].alive) {
			Exp e; e.kind = Exp::RESP; e.rk = is_error ? Exp::R_ERROR_EQ : Exp::R_RESULT_EQ; e.id = r.caller_id; e.payload = *payload;
			e.prop = "C03"; e.group = group_ctr; e.rank = 0; e.why = "relayed reply for " + r.path;
			host->expect(r.caller, e);
		}
		return true;
	}
	host->probe("reply_unknown_or_late");
	return true;
}

bool Model::do_fetch(int c, const JV &req, const JV &params) {
	Peer &p = peers[c];
	if (params.get("match")) { respond(c, req, Exp::R_ERR_DAEMON, "C16", "deprecated match"); return true; }
	const JV *id = params.get("id");
	if (!id || (id->t != JV::Str && id->t != JV::Num)) { respond(c, req, Exp::R_ERR_DAEMON, "C16", "fetch without usable id"); return true; }
	for (auto &f : p.fetches) if (id_equal(f.id, *id)) { host->probe("fetch_id_in_use"); respond(c, req, Exp::R_ERR_DAEMON, "C01", "fetch id in use"); return true; }
	Rule rule; int rc = parse_rule(params.get("path"), max_matchers, rule);
	if (rc == 3) { host->harness_error("unmodelled fetch rule in exact mode: " + params.dump()); return true; }
	if (rc == 1) { host->probe("rule_refused"); respond(c, req, Exp::R_ERR_DAEMON, "C16", "refused rule"); return true; }
	Fetch f; f.id = *id; f.rule = rule; f.serial = ++serial_ctr;
	p.fetches.push_back(f);
	host->fetch_changed(c, *id);
	if (rule.all) host->probe("fetch_all"); else for (auto &m : rule.ms) host->probe("matcher:" + m.name + (rule.ci ? ":ci" : ":cs"));
	if (rc == 2) {
		// repeated option key: the daemon may refuse, or treat the key as given once; follow its answer
		host->probe("repeated_option_key");
		const JV *rid = req.get("id");
		if (!rid || (rid->t != JV::Str && rid->t != JV::Num)) { host->harness_error("fetch with a repeated option key needs a request id to be decidable"); return true; }
		int d = (int)decisions.size();
		Decision dec; dec.what = "fetch with repeated option key";
		JV fid = *id;
		dec.commit = [this, c, fid](bool ok) {
			if (ok) return;
			auto &fs = peers[c].fetches;
			for (size_t i = 0; i < fs.size(); i++) if (id_equal(fs[i].id, fid)) { fs.erase(fs.begin() + (long)i); break; }
			host->fetch_changed(c, fid);
		};
		if (!host->observable(c)) dec.silent_accept = true; // nobody can see the outcome: it only concerns the requester's own stream
		decisions.push_back(dec);
		opt_decision = d;
		for (auto &kv : elems) notify(kv.second, "add", c, id, 0);
		opt_decision = -1;
		Exp x; x.kind = Exp::RESP; x.rk = Exp::R_EITHER; x.id = *rid; x.prop = "C16"; x.why = "fetch with repeated option key"; x.group = group_ctr; x.rank = 1; x.decision = d;
		host->expect(c, x);
		return true;
	}
	bool any = false;
	for (auto &kv : elems) {
		size_t before = p.fetches.back().reported.size();
		notify(kv.second, "add", c, id, 0);
		if (p.fetches.back().reported.size() != before) any = true;
	}
	host->probe(any ? "add_then_fetch" : "fetch_empty");
	respond(c, req, Exp::R_TRUE, notify_prop, "fetch accepted");
	return true;
}

bool Model::do_unfetch(int c, const JV &req, const JV &params) {
	Peer &p = peers[c];
	const JV *id = params.get("id");
	if (!id || (id->t != JV::Str && id->t != JV::Num)) { respond(c, req, Exp::R_ERR_DAEMON, "C01", "unfetch without usable id"); return true; }
	for (size_t i = 0; i < p.fetches.size(); i++) if (id_equal(p.fetches[i].id, *id)) {
		if (!p.fetches[i].reported.empty()) host->probe("unfetch_with_live_elements");
		p.fetches.erase(p.fetches.begin() + i);
		host->fetch_changed(c, *id);
		respond(c, req, Exp::R_TRUE, "C01", "unfetch");
		return true;
	}
	respond(c, req, Exp::R_ERR_DAEMON, "C01", "unfetch of unknown id");
	return true;
}

int Model::get_image(int c, const JV &params, JV &set, bool *all) const {
	set = JV::arr();
	auto pi = peers.find(c);
	if (pi == peers.end()) return 1;
	const Peer &p = pi->second;
	Rule rule; int rc = parse_rule(params.get("path"), max_matchers, rule);
	if (rc == 3 || rc == 1) return rc;
	for (auto &kv : elems) {
		const Elem &e = kv.second;
		if (!e.is_state || !visible(p, e) || !rule.matches(e.path)) continue;
		JV o = JV::obj(); o.set("path", JV::str(e.path)); o.set("value", e.value); set.push(o);
	}
	if (all) *all = rule.all;
	return rc;
}

bool Model::do_get(int c, const JV &req, const JV &params) {
	JV set; bool all = false; int rc = get_image(c, params, set, &all);
	if (rc == 3) { host->harness_error("unmodelled get rule in exact mode"); return true; }
	if (rc == 1) { host->probe("get_rule_refused"); respond(c, req, Exp::R_ERR_DAEMON, "C16", "refused rule in get"); return true; }
	if (!all) host->probe("get_with_rule");
	host->probe("get");
	if (set.a.size() >= 2) host->probe("get_selected>=2");
	respond(c, req, rc == 2 ? Exp::R_ERR_OR_GETSET : Exp::R_GETSET, have_creds ? "C08" : all ? "C04" : "C16", "get", set);
	return true;
}

bool Model::do_config(int c, const JV &req, const JV &params) {
	const JV *name = params.get("name");
	if (name && name->t != JV::Str) { respond(c, req, Exp::R_ERR_DAEMON, "C02", "config name not a string"); return true; }
	if (name) peers[c].name = name->s;
	respond(c, req, Exp::R_TRUE, "C02", "config");
	return true;
}

bool Model::do_auth(int c, const JV &req, const JV &params) {
	Peer &p = peers[c];
	const JV *u = params.get("user"), *pw = params.get("password");
	if (!u || u->t != JV::Str || !pw || pw->t != JV::Str) { respond(c, req, Exp::R_ERR_DAEMON, "C08", "authenticate with bad params"); return true; }
	if (!p.fetches.empty()) { host->probe("authenticate_after_fetch"); respond(c, req, Exp::R_ERR_DAEMON, "C08", "authenticate after fetch"); return true; }
	auto it = users.find(u->s);
	if (!have_creds || it == users.end() || !it->second.has_password || it->second.password != pw->s || !it->second.has_auth) {
		host->probe("wrong_password_or_user");
		respond(c, req, Exp::R_ERR_DAEMON, "C08", "failed authentication"); return true;
	}
	if (p.authed) host->probe(p.user == u->s ? "reauth_same_user" : "reauth_other_user");
	p.authed = true; p.user = u->s; p.fg = it->second.fg; p.sg = it->second.sg; p.cg = it->second.cg;
	host->probe("authenticated");
	respond(c, req, Exp::R_TRUE, "C08", "authenticate ok");
	return true;
}

bool Model::do_passwd(int c, const JV &req, const JV &params) {
	Peer &p = peers[c];
	const JV *u = params.get("user"), *pw = params.get("password");
	if (!u || u->t != JV::Str || !pw || pw->t != JV::Str) { respond(c, req, Exp::R_ERR_DAEMON, "C20", "passwd with bad params"); return true; }
	if (!p.authed) { host->probe("passwd_unauthenticated"); respond(c, req, Exp::R_ERR_DAEMON, "C20", "passwd by unauthenticated peer"); return true; }
	auto it = users.find(u->s);
	if (it == users.end()) { host->probe("passwd_unknown_user"); respond(c, req, Exp::R_ERR_DAEMON, "C20", "passwd for unknown user"); return true; }
	bool admin = users[p.user].admin;
	if (it->second.readonly || !(p.user == u->s || admin)) { host->probe("passwd_refused"); respond(c, req, Exp::R_ERR_DAEMON, "C20", "passwd not allowed"); return true; }
	if (!it->second.has_password) { respond(c, req, Exp::R_ERR_DAEMON, "C20", "no password entry"); return true; }
	// crypt(3) does not hash a passphrase of 512 bytes or more (CRYPT_MAX_PASSPHRASE_SIZE): such a change cannot be carried out, so it must be refused -
	// answering it with success would leave an account that neither password opens
	if (pw->s.size() >= 512) { host->probe("passwd_too_long_for_crypt"); respond(c, req, Exp::R_ERR_DAEMON, "C20", "passwd with a passphrase crypt(3) cannot hash"); return true; }
	host->probe(p.user == u->s ? "passwd_self" : "passwd_by_admin");
	std::string oldpw = it->second.password, user = u->s, newpw = pw->s;
	if (!passwd_may_fail) {
		it->second.password = newpw;
		host->password_changed(user, oldpw, newpw, false);
		respond(c, req, Exp::R_TRUE, "C20", "passwd ok");
		return true;
	}
	// a file-system fault may hit this change: it is answered with success (then it happened) or with an error (then it did not)
	const JV *rid = req.get("id");
	if (!rid || (rid->t != JV::Str && rid->t != JV::Num)) { host->harness_error("passwd under file-system faults needs a request id"); return true; }
	host->password_changed(user, oldpw, newpw, true);
	int idx = host->password_changes() - 1;
	int d = (int)decisions.size();
	Decision dec; dec.what = "passwd under file-system fault";
	dec.commit = [this, user, newpw, idx](bool ok) { if (ok) users[user].password = newpw; host->password_resolved(idx, ok); };
	decisions.push_back(dec);
	Exp x; x.kind = Exp::RESP; x.rk = Exp::R_EITHER; x.id = *rid; x.prop = "C20"; x.why = "passwd (either outcome under an injected file-system fault)"; x.group = group_ctr; x.rank = 1; x.decision = d;
	host->expect(c, x);
	return true;
}

bool Model::rpc(int c, const JV &req) {
	const JV *method = req.get("method");
	if (method) {
		if (method->t != JV::Str) { respond(c, req, Exp::R_ERR_DAEMON, "C02", "method not a string"); return true; }
		const std::string &m = method->s;
		if (m == "info") { respond(c, req, Exp::R_ANYRESULT, "C02", "info"); return true; }
		static const char *known[] = {"change", "set", "call", "add", "remove", "fetch", "unfetch", "get", "config", "authenticate", "passwd"};
		bool k = false; for (auto n : known) if (m == n) k = true;
		if (!k) { host->probe("unknown_method"); respond(c, req, Exp::R_ERR_DAEMON, "C02", "unknown method"); return true; }
		const JV *params = req.get("params");
		if (!params) { respond(c, req, Exp::R_ERR_DAEMON, "C02", "no params"); return true; }
		static const JV empty = JV::obj();
		const JV &pr = params->t == JV::Obj ? *params : empty;
		if (m == "add") return do_add(c, req, pr);
		if (m == "remove") return do_remove(c, req, pr);
		if (m == "change") return do_change(c, req, pr);
		if (m == "set") return do_setcall(c, req, pr, false);
		if (m == "call") return do_setcall(c, req, pr, true);
		if (m == "fetch") return do_fetch(c, req, pr);
		if (m == "unfetch") return do_unfetch(c, req, pr);
		if (m == "get") return do_get(c, req, pr);
		if (m == "config") return do_config(c, req, pr);
		if (m == "authenticate") return do_auth(c, req, pr);
		if (m == "passwd") return do_passwd(c, req, pr);
		return true;
	}
	if (req.get("result")) return do_reply(c, req, false);
	if (req.get("error")) return do_reply(c, req, true);
	respond(c, req, Exp::R_ERR_DAEMON, "C02", "neither request nor response");
	return true;
}

bool Model::on_message(int c, const std::string &text) {
	{ auto it = peers.find(c); if (it == peers.end() || !it->second.alive) return false; } // nothing a released connection sent is processed
	group_ctr++;
	JV j;
	bool ok = json_parse(text, j);
	bool alive = true;
	// a text with an escaped NUL inside a string cannot be represented by a daemon that keeps strings as C strings: it must not be processed with the
	// string cut short (an id, a path or an operand that silently becomes another one) - refusing the whole text like any other it cannot parse is the way out
	if (ok && jv_has_nul(j)) { host->probe("message_with_escaped_nul"); ok = false; }
	if (!ok || (j.t != JV::Obj && j.t != JV::Arr)) alive = false;
	else if (j.t == JV::Obj) alive = rpc(c, j);
	else {
		if (j.a.size() >= 3) host->probe("batch_len>=3");
		for (auto &m : j.a) {
			if (m.t != JV::Obj) { alive = false; break; }
			group_ctr++;
			if (!rpc(c, m)) { alive = false; break; }
		}
	}
	if (!alive) { host->probe("message_drops_connection"); on_peer_gone(c, true); }
	return alive;
}

void Model::on_peer_gone(int c, bool expect_close, int ws_status, bool need_frame, const std::string &close_prop) {
	auto it = peers.find(c);
	if (it == peers.end() || !it->second.alive) return;
	Peer &p = it->second;
	group_ctr++;
	p.alive = false;
	// requests routed to the leaving peer: callers get a daemon-generated error
	for (auto &r : routed) {
		if (r.state != 0) continue;
		if (r.owner == c) {
			r.state = 3; host->probe("owner_left_with_inflight");
			if (r.has_id && r.caller != c && peers[r.caller].alive) {
				Exp e; e.kind = Exp::RESP; e.rk = Exp::R_ERR_DAEMON; e.id = r.caller_id; e.prop = "C05"; e.group = group_ctr; e.rank = 0; e.why = "owner of " + r.path + " disconnected";
				host->expect(r.caller, e);
			}
		} else if (r.caller == c) { r.state = 4; host->probe("caller_left_with_inflight"); }
	}
	if (!p.fetches.empty()) host->probe("peer_left_with_fetches");
	p.fetches.clear();
	std::vector<std::string> owned;
	for (auto &kv : elems) if (kv.second.owner == c) owned.push_back(kv.first);
	bool had_sub = false;
	for (auto &path : owned) {
		for (auto &pp : peers) for (auto &f : pp.second.fetches) if (pp.second.alive && f.reported.count(path)) had_sub = true;
		remove_elem(path);
	}
	if (had_sub) host->probe("owner_disconnect_with_subscribers");
	if (expect_close) {
		Exp e; e.kind = Exp::CLOSE; e.prop = close_prop; e.group = group_ctr; e.rank = 9; e.why = "connection must be released"; e.ws_status = ws_status; e.need_frame = need_frame;
		host->expect(c, e);
	}
}

void Model::on_routed_seen(int ref, const std::string &rid) {
	if (ref < 0 || ref >= (int)routed.size()) return;
	Routed &r = routed[ref];
	for (auto &o : routed) if (o.state == 0 && o.rid_known && o.rid == rid && &o != &r)
		host->violation("C03", "routed-id-not-unique", "routed request id " + rid + " reused while in flight");
	r.rid = rid; r.rid_known = true;
}

bool Model::on_routed_observed(int owner, const std::string &path, const JV *params, const std::string &rid) {
	for (size_t i = 0; i < routed.size(); i++) {
		Routed &r = routed[i];
		if (r.owner != owner || r.rid_known || r.path != path) continue;
		if (r.state != 0 && r.state != 2) continue;
		if (params && !json_equal(*params, r.params)) continue;
		on_routed_seen((int)i, rid);
		// the daemon did accept the request for routing
		for (size_t d = 0; d < decisions.size(); d++) if (decisions[d].state == 0 && decisions[d].what == "route at capacity#" + std::to_string(i)) resolve_decision((int)d, true);
		return true;
	}
	return false;
}

void Model::on_timer_armed(int fd, uint64_t ns) {
	// bind to the most recent pending routed request without a timer
	for (int i = (int)routed.size() - 1; i >= 0; i--) {
		Routed &r = routed[i];
		if (r.timerfd >= 0) break;
		if (r.state != 0 || r.timerfd == -2) continue;
		r.timerfd = fd;
		int64_t diff = (int64_t)ns - (int64_t)r.timeout_ns;
		if (diff < -1000 || diff > 1000000)
			host->violation("C14", "wrong-deadline", "timer armed with " + std::to_string(ns) + " ns, expected " + std::to_string(r.timeout_ns) + " ns (" + r.tprec + " timeout) for " + r.path);
		host->probe("timer_armed");
		return;
	}
	host->probe("timer_armed_unbound");
}

void Model::on_timer_fired(int fd) {
	group_ctr++;
	for (auto &r : routed) {
		if (r.timerfd != fd) continue;
		if (r.state != 0) { host->probe("expiry_after_resolution"); return; }
		if (host->vnow() < r.deadline) host->violation("C14", "early-expiry", "timer fired before the deadline");
		r.state = 2; host->probe("timed_out");
		if (r.has_id && peers[r.caller].alive) {
			Exp e; e.kind = Exp::RESP; e.rk = Exp::R_ERR_DAEMON; e.id = r.caller_id; e.prop = "C14"; e.group = group_ctr; e.rank = 0; e.why = "timeout of request for " + r.path;
			host->expect(r.caller, e);
		}
		return;
	}
}

void Model::on_timer_closed(int fd) {
	for (auto &r : routed) if (r.timerfd == fd) return;
	// a timer that was created and released without ever being armed: the set-up of the most recent request was abandoned
	for (int i = (int)routed.size() - 1; i >= 0; i--) {
		Routed &r = routed[i];
		if (r.timerfd >= 0) break;
		if (r.state != 0 || r.timerfd == -2) continue;
		r.timerfd = -2; host->probe("request_setup_abandoned");
		return;
	}
}

void Model::check_deadlines(uint64_t now, bool final) {
	for (auto &r : routed) {
		if (r.state != 0) continue;
		if (now > r.deadline + 2000000 || final)
			if (now > r.deadline + 2000000)
				host->violation("C14", "no-timeout-answer", "request for " + r.path + " still unresolved " + std::to_string((now - r.deadline) / 1000000) + " ms after its deadline");
	}
}

uint64_t Model::fingerprint() const {
	Hasher h;
	int alive = 0, ws = 0, nf = 0;
	for (auto &p : peers) if (p.second.alive) { alive++; if (p.second.transport == "ws") ws++; nf += (int)p.second.fetches.size(); }
	h.u64(alive); h.u64(ws); h.u64(std::min(nf, 6)); h.u64(std::min<size_t>(elems.size(), 8)); h.u64(std::min(pending_routed(), 4));
	int st = 0, fo = 0; for (auto &e : elems) { if (e.second.is_state) st++; if (e.second.fetch_only) fo++; }
	h.u64(std::min(st, 4)); h.u64(std::min(fo, 2));
	return h.h;
}

std::string Model::image_key() const {
	std::string k;
	for (auto &pp : peers) { const Peer &p = pp.second; if (!p.alive) continue; k += "P" + std::to_string(p.c) + (p.authed ? "a" + p.user : "") + ";"; for (auto &f : p.fetches) { k += "F" + f.id.dump() + (f.rule.all ? "*" : f.rule.ci ? "i" : "s"); for (auto &mm : f.rule.ms) { k += mm.name; for (auto &o : mm.ops) k += "," + json_escape(o); } k += "{"; for (auto &rp : f.reported) k += json_escape(rp) + ","; k += "};"; } }   // (a peer that holds a fetch cannot authenticate again)
	for (auto &kv : elems) { const Elem &e = kv.second; k += "E" + json_escape(e.path) + "#" + std::to_string(e.owner) + (e.is_state ? "s" + e.value.dump() : "m") + (e.fetch_only ? "f" : "") + ";"; for (auto &g : e.fg) k += "g" + g + ";"; }
	for (auto &u : users) k += "U" + u.first + "=" + u.second.password + ";";
	return k;
}
