// Deterministic PRNG (xoshiro256**) and hashing helpers. No global state, no clocks.
#pragma once
#include <cstdint>
#include <cstddef>
#include <string>
#include <vector>

static inline uint64_t splitmix64(uint64_t &x) {
	uint64_t z = (x += 0x9e3779b97f4a7c15ULL);
	z = (z ^ (z >> 30)) * 0xbf58476d1ce4e5b9ULL;
	z = (z ^ (z >> 27)) * 0x94d049bb133111ebULL;
	return z ^ (z >> 31);
}

static inline uint64_t mix64(uint64_t a, uint64_t b) {
	uint64_t x = a * 0x9e3779b97f4a7c15ULL ^ (b + 0x632be59bd9b4e019ULL + (a << 6) + (a >> 2));
	return splitmix64(x);
}

struct Rng {
	uint64_t s[4];
	explicit Rng(uint64_t seed = 1) { reseed(seed); }
	void reseed(uint64_t seed) {
		uint64_t x = seed;
		for (int i = 0; i < 4; i++) s[i] = splitmix64(x);
	}
	static inline uint64_t rotl(uint64_t x, int k) { return (x << k) | (x >> (64 - k)); }
	uint64_t next() {
		uint64_t r = rotl(s[1] * 5, 7) * 9;
		uint64_t t = s[1] << 17;
		s[2] ^= s[0]; s[3] ^= s[1]; s[1] ^= s[2]; s[0] ^= s[3];
		s[2] ^= t; s[3] = rotl(s[3], 45);
		return r;
	}
	// uniform in [0, n)
	uint64_t below(uint64_t n) { return n ? next() % n : 0; }
	// uniform in [lo, hi]
	int64_t range(int64_t lo, int64_t hi) { return hi <= lo ? lo : lo + (int64_t)below((uint64_t)(hi - lo + 1)); }
	bool chance(double p) { return (next() >> 11) * (1.0 / 9007199254740992.0) < p; }
	double unit() { return (next() >> 11) * (1.0 / 9007199254740992.0); }
	template <class T> const T &pick(const std::vector<T> &v) { return v[below(v.size())]; }
	// weighted pick, returns index
	size_t weighted(const std::vector<double> &w) {
		double tot = 0; for (double x : w) tot += x;
		if (tot <= 0) return 0;
		double r = unit() * tot;
		for (size_t i = 0; i < w.size(); i++) { if (r < w[i]) return i; r -= w[i]; }
		return w.size() - 1;
	}
};

// FNV-1a 64 running hash for traces
struct Hasher {
	uint64_t h = 0xcbf29ce484222325ULL;
	void bytes(const void *p, size_t n) {
		const unsigned char *c = (const unsigned char *)p;
		for (size_t i = 0; i < n; i++) { h ^= c[i]; h *= 0x100000001b3ULL; }
	}
	void u64(uint64_t v) { bytes(&v, 8); }
	void str(const std::string &s) { u64(s.size()); bytes(s.data(), s.size()); }
	void tag(const char *t) { while (*t) { h ^= (unsigned char)*t++; h *= 0x100000001b3ULL; } h ^= 0xff; h *= 0x100000001b3ULL; }
};
