/*
 * C19 harness: replaces posix/main.c and linux/linux_io.c (the shipped daemon
 * always starts its HTTP connections with compression level 0, so the
 * permessage-deflate code is only reachable through init_http_connection2()).
 *
 * Everything below this file is the real code of the repository: the epoll
 * event loop, buffered_socket, http_connection, http-parser, websocket.c,
 * compression.c and the bundled zlib. This file is compiled like a daemon
 * object, i.e. its system calls are redirected to the simulated kernel too.
 *
 * The WebSocket endpoint echoes every text and binary message.
 */
#include <errno.h>
#include <fcntl.h>
#include <netinet/in.h>
#include <arpa/inet.h>
#include <signal.h>
#include <stdbool.h>
#include <stdlib.h>
#include <string.h>
#include <sys/socket.h>
#include <unistd.h>

#include "alloc.h"
#include "buffered_socket.h"
#include "compiler.h"
#include "http_connection.h"
#include "http_server.h"
#include "jet_random.h"
#include "linux/eventloop_epoll.h"
#include "list.h"
#include "log.h"
#include "util.h"
#include "websocket.h"

#define CRLF "\r\n"

static int go_ahead = 1;
static unsigned int compression_level = 1;
static LIST_HEAD(echo_list);

struct echo_peer {
	struct websocket ws;
	struct list_head next;
	uint8_t *frag;
	size_t frag_len;
};

static void free_echo(struct echo_peer *e)
{
	list_del(&e->next);
	if (e->frag != NULL) {
		cjet_free(e->frag);
	}
	cjet_free(e);
}

static void on_ws_error(struct websocket *s)
{
	struct echo_peer *e = container_of(s, struct echo_peer, ws);
	free_echo(e);
}

static void on_socket_error(void *context)
{
	struct echo_peer *e = (struct echo_peer *)context;
	websocket_close(&e->ws, WS_CLOSE_GOING_AWAY);
	free_echo(e);
}

static enum websocket_callback_return text_cb(struct websocket *s, char *msg, size_t length)
{
	return (websocket_send_text_frame(s, msg, length) < 0) ? WS_ERROR : WS_OK;
}

static enum websocket_callback_return binary_cb(struct websocket *s, uint8_t *msg, size_t length)
{
	return (websocket_send_binary_frame(s, msg, length) < 0) ? WS_ERROR : WS_OK;
}

static enum websocket_callback_return collect(struct echo_peer *e, const uint8_t *msg, size_t length)
{
	if (length > 0) {
		uint8_t *n = cjet_malloc(e->frag_len + length);
		if (n == NULL) {
			return WS_ERROR;
		}
		if (e->frag_len > 0) {
			memcpy(n, e->frag, e->frag_len);
		}
		memcpy(n + e->frag_len, msg, length);
		if (e->frag != NULL) {
			cjet_free(e->frag);
		}
		e->frag = n;
		e->frag_len += length;
	}
	return WS_OK;
}

static enum websocket_callback_return text_frame_cb(struct websocket *s, char *msg, size_t length, bool is_last)
{
	struct echo_peer *e = container_of(s, struct echo_peer, ws);
	if (collect(e, (const uint8_t *)msg, length) != WS_OK) {
		return WS_ERROR;
	}
	if (is_last) {
		int ret = websocket_send_text_frame(s, (char *)e->frag, e->frag_len);
		if (e->frag != NULL) {
			cjet_free(e->frag);
		}
		e->frag = NULL;
		e->frag_len = 0;
		return (ret < 0) ? WS_ERROR : WS_OK;
	}
	return WS_OK;
}

static enum websocket_callback_return binary_frame_cb(struct websocket *s, uint8_t *msg, size_t length, bool is_last)
{
	struct echo_peer *e = container_of(s, struct echo_peer, ws);
	if (collect(e, msg, length) != WS_OK) {
		return WS_ERROR;
	}
	if (is_last) {
		int ret = websocket_send_binary_frame(s, e->frag, e->frag_len);
		if (e->frag != NULL) {
			cjet_free(e->frag);
		}
		e->frag = NULL;
		e->frag_len = 0;
		return (ret < 0) ? WS_ERROR : WS_OK;
	}
	return WS_OK;
}

static enum websocket_callback_return close_cb(struct websocket *s, enum ws_status_code status_code)
{
	(void)status_code;
	struct echo_peer *e = container_of(s, struct echo_peer, ws);
	free_echo(e);
	return WS_CLOSED;
}

static int create_echo(struct http_connection *connection)
{
	struct echo_peer *e = cjet_calloc(1, sizeof(*e));
	if (e == NULL) {
		return -1;
	}
	INIT_LIST_HEAD(&e->next);
	connection->parser.data = &e->ws;
	if (websocket_init(&e->ws, connection, true, on_ws_error, "jet") < 0) {
		connection->parser.data = NULL;
		cjet_free(e);
		return -1;
	}
	struct buffered_reader *br = &connection->br;
	br->set_error_handler(br->this_ptr, on_socket_error, e);
	e->ws.text_message_received = text_cb;
	e->ws.binary_message_received = binary_cb;
	e->ws.text_frame_received = text_frame_cb;
	e->ws.binary_frame_received = binary_frame_cb;
	e->ws.close_received = close_cb;
	list_add_tail(&e->next, &echo_list);
	br->read_until(br->this_ptr, CRLF, websocket_read_header_line, &e->ws);
	return 0;
}

static void handle_http(struct io_event *ev, int fd)
{
	int flags = fcntl(fd, F_GETFL, 0);
	fcntl(fd, F_SETFL, flags | O_NONBLOCK);
	const struct http_server *server = const_container_of(ev, struct http_server, ev);
	struct http_connection *connection = alloc_http_connection();
	if (connection == NULL) {
		close(fd);
		return;
	}
	struct buffered_socket *bs = buffered_socket_acquire();
	if (bs == NULL) {
		cjet_free(connection);
		close(fd);
		return;
	}
	buffered_socket_init(bs, (socket_type)fd, ev->loop, free_connection, connection);

	struct buffered_reader br;
	br.this_ptr = bs;
	br.close = buffered_socket_close;
	br.read_exactly = buffered_socket_read_exactly;
	br.read_until = buffered_socket_read_until;
	br.set_error_handler = buffered_socket_set_error;
	br.writev = buffered_socket_writev;

	init_http_connection2(connection, server, &br, true, compression_level);
}

static enum eventloop_return accept_http(struct io_event *ev)
{
	while (1) {
		struct sockaddr_storage addr;
		socklen_t addrlen = sizeof(addr);
		int fd = accept(ev->sock, (struct sockaddr *)&addr, &addrlen);
		if (fd == -1) {
			return EL_CONTINUE_LOOP;
		}
		handle_http(ev, fd);
	}
}

static enum eventloop_return accept_error(struct io_event *ev)
{
	(void)ev;
	return EL_ABORT_LOOP;
}

static void sighandler(int signum)
{
	(void)signum;
	go_ahead = 0;
}

int main(int argc, char **argv)
{
	if (argc > 1) {
		compression_level = (unsigned int)atoi(argv[1]);
	}
	if (init_random() < 0) {
		return EXIT_FAILURE;
	}
	signal(SIGTERM, sighandler);
	signal(SIGPIPE, SIG_IGN);

	struct eventloop_epoll eloop = {
	    .epoll_fd = 0,
	    .loop = {
	        .this_ptr = &eloop,
	        .init = eventloop_epoll_init,
	        .destroy = eventloop_epoll_destroy,
	        .run = eventloop_epoll_run,
	        .add = eventloop_epoll_add,
	        .remove = eventloop_epoll_remove,
	    },
	};
	struct eventloop *loop = &eloop.loop;
	int ret = EXIT_FAILURE;
	if (loop->init(loop->this_ptr) < 0) {
		goto init_failed;
	}

	int listen_fd = socket(AF_INET, SOCK_STREAM, 0);
	if (listen_fd < 0) {
		goto socket_failed;
	}
	int flags = fcntl(listen_fd, F_GETFL, 0);
	fcntl(listen_fd, F_SETFL, flags | O_NONBLOCK);
	struct sockaddr_in sa;
	memset(&sa, 0, sizeof(sa));
	sa.sin_family = AF_INET;
	sa.sin_port = htons(CONFIG_JETWS_PORT);
	sa.sin_addr.s_addr = htonl(INADDR_ANY);
	if ((bind(listen_fd, (struct sockaddr *)&sa, sizeof(sa)) < 0) || (listen(listen_fd, 10) < 0)) {
		goto bind_failed;
	}

	static const struct url_handler handler[] = {
	    {
	        .request_target = "/api/jet/",
	        .create = create_echo,
	        .on_header_field = websocket_upgrade_on_header_field,
	        .on_header_value = websocket_upgrade_on_header_value,
	        .on_headers_complete = websocket_upgrade_on_headers_complete,
	        .on_body = NULL,
	        .on_message_complete = NULL,
	    },
	};
	struct http_server server = {
	    .ev = {
	        .read_function = accept_http,
	        .write_function = NULL,
	        .error_function = accept_error,
	        .loop = loop,
	        .sock = listen_fd},
	    .handler = handler,
	    .num_handlers = 1};
	if (loop->add(loop->this_ptr, &server.ev) == EL_ABORT_LOOP) {
		goto bind_failed;
	}
	accept_http(&server.ev);

	log_info("c19 harness started, compression level %u", compression_level);
	ret = loop->run(loop->this_ptr, &go_ahead);

	struct list_head *item;
	struct list_head *tmp;
	list_for_each_safe (item, tmp, &echo_list) {
		struct echo_peer *e = list_entry(item, struct echo_peer, next);
		websocket_close(&e->ws, WS_CLOSE_GOING_AWAY);
		free_echo(e);
	}
	close_all_http_connections();
	loop->remove(loop->this_ptr, &server.ev);
	ret = (ret < 0) ? EXIT_FAILURE : EXIT_SUCCESS;

bind_failed:
	close(listen_fd);
socket_failed:
	loop->destroy(loop->this_ptr);
init_failed:
	close_random();
	signal(SIGTERM, SIG_DFL);
	return ret;
}
