// Simulated kernel state shared between kernel.cpp (sim_* entry points) and world.cpp (scheduler/oracles)
#pragma once
#include "world.h"

enum FdKind { FD_FREE = 0, FD_LISTEN, FD_STREAM, FD_EPOLL, FD_TIMER, FD_FILE, FD_SOCKNEW };

struct SockAddrSpec { int family = 0; std::string ip; int port = 0; std::string unpath; bool unnamed = false; };

struct KFd {
	int fd = -1;
	FdKind kind = FD_FREE;
	bool open = false;
	bool ever_closed = false;
	// listen
	int sock_family = 0; bool listening = false; SockAddrSpec bound; bool v6only = false;
	std::deque<int> backlog; bool lasting_accept_failure = false;       // client index, or -(errno) for an aborted/failed accept
	// stream
	int client = -1;
	int cfg_calls = 0, cfg_fail_at = 0, cfg_fail_errno = 0; int epoll_add_errno = 0;   // fault: registering this connection with the event loop fails once (ENOSPC: max_user_watches, ENOMEM)   // fault: the n-th configuration call (fcntl/getsockname/setsockopt) on this connection fails
	// timer
	bool armed = false; uint64_t deadline = 0; uint64_t expirations = 0; uint64_t armed_value = 0;
	// file
	size_t fpos = 0; std::string path;
	// epoll membership (single epoll instance is enough for cjet)
	bool in_epoll = false; uint32_t ep_events = 0; uint64_t ep_data = 0; bool ep_pending = false; uint64_t ep_seq = 0;
	int ep_owner = -1;
	bool spurious_in = false;       // fault: reported readable once although nothing is there (the following read/accept answers EAGAIN)
};

struct FileLogEntry { std::string op; bool exists = false, dur_exists = false; std::string image, dur_image; std::vector<std::string> torn; int change = 0; int call = 0; };

struct ArenaBlock { size_t off, size; bool live; uint64_t seq; };

struct Arena {
	unsigned char *base = nullptr; size_t cap = 0, cur = 0;
	std::vector<ArenaBlock> blocks;
	uint64_t nallocs = 0, live_bytes = 0, live_blocks = 0, peak_live = 0;
	std::set<uint64_t> fail_at;     // 1-based allocation indices that return NULL
	std::set<uint64_t> stack_at;    // debugging: print the daemon's stack at these allocations
	uint64_t fill_mode = 0, fill_state = 1;
	bool exhausted = false;
	// Default: a freed block is never handed out again within a run (any use after free stays visible). Some runs recycle instead, the way a real
	// allocator does - the most recently freed block of the same (rounded) size first - so that behaviour that depends on an address or on stale
	// contents coming back (an id derived from an address, a field that is not initialised) can show.
	bool reuse = false; std::map<size_t, std::vector<int>> freelist;
	void init();
	void *alloc(size_t n, bool zero);
	void release(void *p);
	void *resize(void *p, size_t n);
	bool owns(const void *p) const { return (const unsigned char *)p >= base && (const unsigned char *)p < base + cap; }
	int find(const void *p) const;
};
extern Arena g_arena;

// hooks implemented by world.cpp, called from the sim_* layer
struct KernelHooks {
	virtual ~KernelHooks() {}
	virtual int on_epoll_wait(int epfd, void *events, int maxevents, int timeout) = 0;
	virtual long on_read(KFd &k, void *buf, size_t n) = 0;
	virtual long on_writev(KFd &k, const struct iovec *iov, int cnt) = 0;
	virtual int on_accept(KFd &k, void *addr, unsigned *addrlen) = 0;
	virtual void on_close(KFd &k) = 0;
	virtual void on_timer_set(KFd &k, uint64_t ns) = 0;
	virtual void on_timer_create_failed() {}
	virtual int syscall_fault(const char *name) { (void)name; return 0; }   // errno the call must fail with now, or 0
	virtual void on_syscall(const char *name) = 0;     // every sim_* call: step counting, sigterm-inside-batch
	virtual void hygiene(const std::string &rule, const std::string &detail) = 0;
	virtual void on_log(int pri, const std::string &line) = 0;
	virtual void on_file_op(const char *op, long result) = 0;
	virtual void on_alloc_fail(uint64_t index) { (void)index; }
};
extern KernelHooks *g_hooks;

struct Kernel {
	int fd_base = 1000;
	std::vector<KFd> fds;
	uint64_t ep_seq = 0;
	void (*sigterm_handler)(int) = nullptr;
	void (*sigint_handler)(int) = nullptr;
	// credential file (in-memory file system with one file)
	std::string file_path;                                   // the credential file
	std::map<std::string, std::string> files, dur;           // what system calls see / what survives a loss of power
	std::vector<FileLogEntry> file_log;                      // state of the credential file after every completed file-system call
	std::string cwd = "/srv/cjet";   // working directory of the simulated process
	int fs_fault_at = -1; std::string fs_fault_kind; int fs_calls = 0; long fs_fault_arg = 0; bool fs_fault_fired = false;
	int cur_change = 0;                                      // number of password changes the reference model has seen so far
	uint64_t urandom_state = 0x1234567;
	// fault knobs
	std::deque<int> timerfd_create_errs;   // errno per upcoming call (0 = ok)
	std::deque<int> epoll_add_errs;
	int close_eintr = 0;            // fault: the next n close() calls on connections/timers report EINTR (after releasing the descriptor)
	KFd *get(int fd) { int i = fd - fd_base; if (i < 0 || i >= (int)fds.size()) return nullptr; return &fds[i]; }
	KFd &alloc_fd(FdKind kind);
	void mark_pending(KFd &k);
};
extern Kernel g_kernel;

bool kernel_fd_ready_in(KFd &k);   // world_core.cpp
bool kernel_fd_ready_out(KFd &k);
uint64_t world_vnow();

extern "C" int cjet_main(int argc, char **argv);
