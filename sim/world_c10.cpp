// C10 oracle at the writev seam: outbound byte streams are whole frames in generation order.
// Independent of the reference model: it only uses what the daemon hands to the kernel and what the kernel accepted.
#include "wimpl.h"
#include <cstring>
#include <sys/uio.h>
#include <algorithm>

void World::c10_offer(Client &cl, const struct iovec *iov, int cnt) {
	// What the daemon gathers for one write is "what it still owes the kernel, then what it generates now". Where one ends and the other begins
	// is taken from what is known to be owed, not from the shape of the call (how many buffers, whether an empty one is passed, writev or sendmsg).
	std::string G, P, F;
	for (int i = 0; i < cnt; i++) G.append((const char *)iov[i].iov_base, iov[i].iov_len);
	C10State &s = cl.c10;
	size_t first_len = cnt > 0 ? iov[0].iov_len : 0;
	if (s.owed_valid) {
		// the alternative the call's own first buffer points at, else the longest one the gathered bytes begin with
		const std::string *pick = nullptr;
		for (auto &c : s.owed) if (c.size() <= G.size() && G.compare(0, c.size(), c) == 0) { if (!pick || c.size() == first_len || (pick->size() != first_len && c.size() > pick->size())) pick = &c; }
		if (pick) { P = *pick; F = G.substr(P.size()); }
		else { P = G.substr(0, std::min(first_len, G.size())); F = G.substr(P.size()); }
	} else F = G;
	// 1. the pending buffer the daemon shows must be what it still owes the kernel
	if (s.owed_valid) {
		bool ok = false;
		for (auto &c : s.owed) if (c == P) ok = true;
		if (!ok) {
			std::string want; for (auto &c : s.owed) want += (want.empty() ? "" : " or ") + std::to_string(c.size()) + " bytes '" + ascii_safe(c.substr(0, 40)) + "'";
			// part of a frame was queued (or queued bytes were lost): allowed only if the connection is closed; judged when the daemon returns to its event loop
			s.suspect = "the daemon's queued output is " + std::to_string(P.size()) + " bytes '" + ascii_safe(P.substr(0, 40)) + "' (ending '" + ascii_safe(P.size() > 12 ? P.substr(P.size() - 12) : P) + "'), but after the previous write it owed " + want;
			probe("pending_mismatch_observed");
		}
	}
	s.cur_P = P; s.cur_F = F;
	dbg("c10 offer c%d: %d buffers, first %zu, gathered %zu = owed %zu + new %zu (owed known: %d, %zu alternatives)", cl.idx, cnt, first_len, G.size(), P.size(), F.size(), (int)s.owed_valid, s.owed.size());
	if (!F.empty()) {
		s.frames.push_back(F); s.generated++;
		probe("c10_frame_offered");
		if (!P.empty()) probe("c10_frame_offered_behind_pending");
		if (F.size() > 126 && cl.od.ws) probe("ws_header_16bit");
	} else if (!P.empty()) probe("flush_on_writable");
}

void World::c10_result(Client &cl, long accepted, int err) {
	C10State &s = cl.c10;
	size_t total = s.cur_P.size() + s.cur_F.size();
	size_t m = accepted > 0 ? (size_t)accepted : 0;
	std::string all = s.cur_P + s.cur_F;
	s.owed.clear(); s.owed_valid = false;
	if (err && err != EAGAIN) { s.dead = true; return; }     // a failed socket: the daemon must give the connection up; nothing more is owed
	if (m < total) {
		if (m < s.cur_P.size()) probe("partial_in_pending");
		else if (!s.cur_F.empty()) { size_t fo = m - s.cur_P.size(); if (fo < 4 && !cl.od.ws) probe("partial_in_prefix"); else if (fo < 2 && cl.od.ws) probe("partial_in_ws_header"); else probe("partial_in_payload"); }
		std::string rest = all.substr(m);
		size_t maxbuf = (size_t)g_variant.max_write_buffer;
		if (rest.size() == maxbuf) probe("buffer_exact_fit");
		if (rest.size() <= maxbuf) s.owed.push_back(rest);
		else probe("buffer_overflow");
		if (!s.cur_F.empty() && m <= s.cur_P.size()) s.owed.push_back(s.cur_P.substr(m));   // the new frame refused before any of its bytes was queued or sent
		if (!s.owed.empty()) s.owed_valid = true;
		// else: part of the frame is on the wire and the rest cannot be queued: only closing the connection is left (the stream check below sees anything else)
	} else { s.owed.push_back(std::string()); s.owed_valid = true; }
}

// the accepted bytes must parse into a subsequence of the offered frames, in order, each complete (NFA over frame index/offset)
void World::c10_accept(Client &cl, const char *p, size_t n) {
	C10State &s = cl.c10;
	for (size_t k = 0; k < n; k++) {
		unsigned char b = (unsigned char)p[k];
		std::vector<std::pair<size_t, size_t>> next;
		auto add = [&](size_t i, size_t off) { for (auto &x : next) if (x.first == i && x.second == off) return; next.emplace_back(i, off); };   // (no cap: after a long stall hundreds of refused frames share their first bytes, and the one that is finally sent is the last of them)
		for (auto &st : s.states) {
			size_t i = st.first, off = st.second;
			if (off > 0) {   // inside frame i
				const std::string &f = s.frame(i);
				if ((unsigned char)f[off] == b) { if (off + 1 == f.size()) add(i + 1, 0); else add(i, off + 1); }
			} else {         // at a boundary: any frame j >= i may start here (frames before it were refused as a whole)
				for (size_t j = i; j < s.generated; j++) {
					const std::string &f = s.frame(j);
					if ((unsigned char)f[0] == b) { if (f.size() == 1) add(j + 1, 0); else add(j, 1); }
				}
			}
		}
		if (next.empty()) {
			std::string ctx = cl.out.size() > 60 ? cl.out.substr(cl.out.size() - 60) : cl.out;
			violation("C10", "torn-frame-stream", "connection c" + std::to_string(cl.idx) + " (" + cl.transport + "): byte " + std::to_string(s.accepted_total + k) + " of the accepted stream is not the continuation of any frame the daemon generated, in order and complete; stream so far ends '" + ascii_safe(ctx) + "', offending bytes '" + ascii_safe(std::string(p + k, std::min<size_t>(n - k, 40))) + "'");
		}
		s.states.swap(next);
	}
	s.accepted_total += n;
	// drop frames no state can reach any more
	size_t lo = s.generated; for (auto &st : s.states) lo = std::min(lo, st.first);
	while (s.base < lo && !s.frames.empty()) { s.frames.pop_front(); s.base++; }
}

void World::c10_turn_end() {
	for (auto &cl : clients) {
		if (cl.c10.suspect.empty()) continue;
		if (cl.accepted && !cl.daemon_closed)
			violation("C10", "partial-frame-queued", "connection c" + std::to_string(cl.idx) + " (" + cl.transport + ") stays open although " + cl.c10.suspect + ": a frame was not refused as a whole");
		cl.c10.suspect.clear(); probe("partial_queue_then_closed");
	}
}

void World::c10_quiescent() {
	for (auto &cl : clients) {
		C10State &s = cl.c10;
		if (!cl.accepted || cl.daemon_closed || cl.client_closed || s.dead || cl.wr_err) continue;
		if (cl.space == 0) continue;                      // still not writable: parked bytes are fine
		bool parked = s.owed_valid && !s.owed.empty();
		for (auto &c : s.owed) if (c.empty()) parked = false;
		if (parked && !q.empty()) continue;
		if (parked) violation("C10", "parked-bytes-not-flushed", "connection c" + std::to_string(cl.idx) + " is writable again, the event loop is idle, and the daemon still holds " + std::to_string(s.owed[0].size()) + " bytes it queued for it");
		bool at_boundary = false; for (auto &st : s.states) if (st.second == 0) at_boundary = true;
		if (!at_boundary && q.empty() && cl.wcap == 0) violation("C10", "partial-frame-stalled", "connection c" + std::to_string(cl.idx) + " is open and writable, the event loop is idle, and the last frame it received is incomplete");
	}
}
