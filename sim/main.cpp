// cjetsim entry: fork server, run/replay/shrink.
#include "world.h"
#include <cstdio>
#include <cstdlib>
#include <cstring>
#include <cerrno>
#include <string>
#include <iostream>
#include <fstream>
#include <sstream>
#include <unistd.h>
#include <poll.h>
#include <signal.h>
#include <fcntl.h>
#include <sys/wait.h>
#include <sys/stat.h>
#include <sys/personality.h>
#include <sys/resource.h>

extern "C" __attribute__((used)) const char *__asan_default_options() {
	return "exitcode=77:detect_leaks=0:allocator_may_return_null=1:abort_on_error=0:handle_abort=1:detect_stack_use_after_return=0:symbolize=1:print_summary=1";
}
extern "C" __attribute__((used)) const char *__ubsan_default_options() { return "print_stacktrace=1:halt_on_error=1"; }

static std::string g_replay_dir = "replays";
static int g_child_wall_s = 30;

struct ChildOut { std::string result, err; int status = 0; bool timed_out = false; };

static ChildOut run_child(const Plan &p) {
	ChildOut co;
	int rp[2], ep[2];
	if (pipe(rp) || pipe(ep)) { perror("pipe"); exit(3); }
	fflush(stdout); fflush(stderr);
	pid_t pid = fork();
	if (pid < 0) { perror("fork"); exit(3); }
	if (pid == 0) {
		close(rp[0]); close(ep[0]);
		dup2(ep[1], 2); close(ep[1]);
		int dn = open("/dev/null", O_RDWR); if (dn >= 0) { dup2(dn, 0); dup2(dn, 1); }
		alarm((unsigned)g_child_wall_s);
		run_plan_child(p, rp[1]);
	}
	close(rp[1]); close(ep[1]);
	struct pollfd fds[2] = {{rp[0], POLLIN, 0}, {ep[0], POLLIN, 0}};
	int open_n = 2; char buf[65536];
	while (open_n > 0) {
		int r = poll(fds, 2, -1);
		if (r < 0) { if (errno == EINTR) continue; break; }
		for (int i = 0; i < 2; i++) {
			if (fds[i].fd < 0 || !(fds[i].revents & (POLLIN | POLLHUP | POLLERR))) continue;
			ssize_t n = read(fds[i].fd, buf, sizeof buf);
			if (n > 0) { if (i == 0) co.result.append(buf, (size_t)n); else if (co.err.size() < (1u << 20)) co.err.append(buf, (size_t)n); }
			else { close(fds[i].fd); fds[i].fd = -1; open_n--; }
		}
	}
	int st = 0; while (waitpid(pid, &st, 0) < 0 && errno == EINTR) {}
	co.status = st;
	if (WIFSIGNALED(st) && WTERMSIG(st) == SIGALRM) co.timed_out = true;
	return co;
}

// turn a child outcome into a result object (always JSON)
static JV interpret(const Plan &p, const ChildOut &co) {
	JV j;
	if (!co.result.empty() && json_parse(co.result.substr(0, co.result.find('\n')), j) && j.t == JV::Obj) {
		return j;
	}
	j = JV::obj();
	std::string memprop = p.hdr.gets("memprop", "C06");
	std::string rule, site, detail;
	const std::string &e = co.err;
	size_t a = e.find("ERROR: AddressSanitizer: ");
	if (a != std::string::npos) {
		size_t s = a + strlen("ERROR: AddressSanitizer: "); size_t en = e.find_first_of(" \n", s);
		rule = "asan-" + e.substr(s, en - s);
	} else if ((a = e.find("runtime error: ")) != std::string::npos) {
		size_t s = a + strlen("runtime error: "); size_t en = e.find('\n', s);
		std::string msg = e.substr(s, en - s);
		// keep the message class, drop numbers
		std::string cls; for (char ch : msg) { if (isdigit((unsigned char)ch)) continue; cls += ch; if (cls.size() > 50) break; }
		for (auto &ch : cls) if (ch == ' ') ch = '-';
		rule = "ubsan-" + cls;
		// site from the "file:line:col: runtime error" prefix
		size_t ls = e.rfind('\n', a); ls = ls == std::string::npos ? 0 : ls + 1;
		std::string loc = e.substr(ls, a - ls); size_t sl = loc.rfind('/'); if (sl != std::string::npos) loc = loc.substr(sl + 1);
		size_t c1 = loc.find(':'); if (c1 != std::string::npos) site = loc.substr(0, c1);
	} else if (co.timed_out) { rule = "hang"; detail = "run exceeded the wall-clock limit without making a system call: the daemon loops"; }
	else if (WIFSIGNALED(co.status)) { rule = std::string("signal-") + std::to_string(WTERMSIG(co.status)); }
	else { rule = "child-died-exit-" + std::to_string(WIFEXITED(co.status) ? WEXITSTATUS(co.status) : -1); }
	// innermost frame inside the daemon sources
	if (site.empty() || rule.rfind("asan", 0) == 0) {
		std::istringstream is(e); std::string line;
		while (std::getline(is, line)) {
			size_t in = line.find(" in ");
			if (line.find("    #") == std::string::npos || in == std::string::npos) continue;
			if (line.find("/src/") == std::string::npos || line.find("/verif/sim/") != std::string::npos) continue;
			size_t fs = in + 4; size_t fe = line.find(' ', fs);
			site = line.substr(fs, fe - fs);
			break;
		}
	}
	if (detail.empty()) { detail = ascii_safe(e.substr(0, 3000)); }
	j.set("violated", JV::boolean(true));
	j.set("prop", JV::str(memprop));
	j.set("rule", JV::str(site.empty() ? rule : rule + "/" + site));
	j.set("detail", JV::str(detail));
	j.set("crash", JV::boolean(true));
	j.set("trace", JV::str("crash"));
	return j;
}

static std::string sig_of(const JV &r) { return r.getb("violated") ? r.gets("prop") + "/" + r.gets("rule") : ""; }

static JV run_single(const Plan &p) { ChildOut co = run_child(p); if (p.hdr.getb("debug")) fputs(co.err.c_str(), stderr); return interpret(p, co); }

// pointers of the daemon's heap appear in routed request ids; two executions may legitimately allocate peers in a different order
static std::string normalise_out(const std::string &hex) {
	std::string s = hexdec(hex), o;
	for (size_t i = 0; i < s.size();) {
		if (s.compare(i, 3, "_0x") == 0) { size_t j = i + 3; while (j < s.size() && isxdigit((unsigned char)s[j])) j++; if (j - i - 3 >= 8) { o += "_PTR"; i = j; continue; } }
		o += s[i++];
	}
	return o;
}

// C09: the canonical plan and its re-segmented, re-batched twin must produce identical output on every connection
static JV run_pair(const Plan &a) {
	JV ra = run_single(a);
	if (ra.getb("violated") || ra.has("harness_error")) { ra.set("which", JV::str("A")); return ra; }
	Plan b = derive_b(a);
	JV rb = run_single(b);
	if (rb.getb("violated") || rb.has("harness_error")) { rb.set("which", JV::str("B")); return rb; }
	if (ra.has("inconclusive") || rb.has("inconclusive")) { if (!ra.has("inconclusive")) ra.set("inconclusive", JV::str(rb.gets("inconclusive"))); return ra; }
	const JV *ea = ra.get("extra"), *eb = rb.get("extra");
	const JV *oa = ea ? ea->get("outs") : nullptr, *ob = eb ? eb->get("outs") : nullptr;
	std::string diff;
	if (!oa || !ob || oa->a.size() != ob->a.size()) diff = "the two executions saw a different number of connections";
	else for (size_t i = 0; i < oa->a.size() && diff.empty(); i++) {
		const JV &x = oa->a[i], &y = ob->a[i];
		std::string sx = normalise_out(x.gets("out")), sy = normalise_out(y.gets("out"));
		if (x.getb("closed") != y.getb("closed")) diff = "connection c" + std::to_string(i) + " was " + (x.getb("closed") ? "closed" : "left open") + " with whole-message delivery but " + (y.getb("closed") ? "closed" : "left open") + " with re-segmented delivery";
		else if (sx != sy) {
			size_t k = 0; while (k < sx.size() && k < sy.size() && sx[k] == sy[k]) k++;
			diff = "output on connection c" + std::to_string(i) + " differs from byte " + std::to_string(k) + ": whole-message delivery gave '" + ascii_safe(sx.substr(k > 30 ? k - 30 : 0, 110)) + "' (" + std::to_string(sx.size()) + " bytes), re-segmented delivery gave '" + ascii_safe(sy.substr(k > 30 ? k - 30 : 0, 110)) + "' (" + std::to_string(sy.size()) + " bytes)";
		}
	}
	// merge statistics of both executions
	JV out = ra;
	JV st = JV::obj();
	const JV *sa = ra.get("stats"), *sb = rb.get("stats");
	if (sa && sb) {
		for (auto &kv : sa->o) {
			if (kv.first == "probes") { JV pr = kv.second; const JV *pb = sb->get("probes"); if (pb) for (auto &q : pb->o) { bool f = false; for (auto &z : pr.o) if (z.first == q.first) { z.second.d += q.second.d; f = true; } if (!f) pr.set(q.first, q.second); } st.set("probes", pr); }
			else if (kv.second.t == JV::Num) st.set(kv.first, JV::num(kv.second.d + sb->getd(kv.first)));
			else if (kv.second.t == JV::Arr) { JV arr = kv.second; const JV *ab = sb->get(kv.first); if (ab) for (auto &z : ab->a) arr.push(z); st.set(kv.first, arr); }
			else st.set(kv.first, kv.second);
		}
		JV o2 = JV::obj(); for (auto &kv : out.o) if (kv.first == "stats") o2.set("stats", st); else if (kv.first != "extra") o2.set(kv.first, kv.second); out = o2;
	}
	out.put("trace", JV::str(ra.gets("trace") + rb.gets("trace")));
	if (!diff.empty()) {
		JV v = JV::obj(); for (auto &kv : out.o) if (kv.first != "violated") v.set(kv.first, kv.second);
		v.set("violated", JV::boolean(true)); v.set("prop", JV::str("C09")); v.set("rule", JV::str("output-depends-on-segmentation")); v.set("detail", JV::str(diff));
		return v;
	}
	return out;
}

static JV run_once(const Plan &p) { if (p.profile == "c09") return run_pair(p); return run_single(p); }

// ------------------------------------------------------------------ C20: crash points and file-system faults of every password change
struct C20Acc { JV viol = JV::arr(); long images = 0, reloads = 0, fault_runs = 0, crash_points = 0, torn = 0, powerloss = 0, faults_fired = 0; std::set<std::string> traces; std::map<std::string, long> ops; };

static JV c20_sets(const Plan &base, const JV &changes, std::vector<std::pair<std::string, std::string>> &probes, std::vector<std::map<std::string, std::string>> &sets) {
	// S_0 = the file as generated; S_j = S_{j-1} with change j (if it was applied)
	std::map<std::string, std::string> cur; std::map<std::string, std::set<std::string>> cand;
	const JV *users = base.hdr.get("creds") ? base.hdr.get("creds")->get("users") : nullptr;
	if (users) for (auto &kv : users->o) { if (kv.second.has("password") && !kv.second.getb("noauth")) { cur[kv.first] = kv.second.gets("password"); cand[kv.first].insert(kv.second.gets("password")); } }
	sets.clear(); sets.push_back(cur);
	for (auto &c : changes.a) {
		if (cur.count(c.gets("user"))) { cand[c.gets("user")].insert(c.gets("new")); cand[c.gets("user")].insert(c.gets("old")); }
		if (c.getb("applied") && cur.count(c.gets("user"))) cur[c.gets("user")] = c.gets("new");
		sets.push_back(cur);
	}
	probes.clear();
	for (auto &kv : cand) for (auto &pw : kv.second) probes.emplace_back(kv.first, pw);
	return JV();
}

static JV c20_vec(const std::vector<std::pair<std::string, std::string>> &probes, const std::map<std::string, std::string> &setv) {
	JV a = JV::arr();
	for (auto &p : probes) { auto it = setv.find(p.first); a.push(JV::boolean(it != setv.end() && it->second == p.second)); }
	return a;
}

static Plan c20_reload_plan(const Plan &base, const std::string &image, bool exists, const std::vector<std::pair<std::string, std::string>> &probes, const JV &allowed, const std::string &what, const std::string &rule) {
	Plan p; p.profile = "c20r"; p.seed = base.seed;
	JV h = JV::obj(); h.set("mode", JV::str("none")); h.set("fill", JV::num(base.hdr.getd("fill", 0))); h.set("canary", JV::boolean(false)); h.set("end", JV::str("close")); h.set("expect_exit", JV::str("any"));
	h.set("memprop", JV::str("C20")); h.set("baseprop", JV::str("C20")); h.set("canary_prop", JV::str("C20"));
	JV cr = JV::obj(); cr.set("path", JV::str("/etc/cjet/passwd.json")); cr.set("rawhex", JV::str(hexenc(image))); if (!exists) cr.set("absent", JV::boolean(true)); h.set("creds", cr);
	JV argv = JV::arr(); argv.push(JV::str("-f")); argv.push(JV::str("-p")); argv.push(JV::str("/etc/cjet/passwd.json")); h.set("argv", argv);
	JV rl = JV::obj(); JV pr = JV::arr(); for (auto &x : probes) { JV o = JV::obj(); o.set("user", JV::str(x.first)); o.set("password", JV::str(x.second)); pr.push(o); }
	rl.set("probes", pr); rl.set("allowed", allowed); rl.set("what", JV::str(what)); rl.set("rule", JV::str(rule)); h.set("reload", rl);
	p.hdr = h;
	Op c; c.k = "connect"; c.c = 0; c.uid = 1; c.a.set("tr", JV::str("raw")); c.a.set("noexpect", JV::boolean(true)); p.ops.push_back(c);
	uint64_t uid = 2;
	for (size_t i = 0; i < probes.size(); i++) {
		Op s2; s2.k = "send"; s2.c = 0; s2.uid = uid++;
		JV q = JV::obj(); q.set("id", JV::str("p" + std::to_string(i))); q.set("method", JV::str("authenticate")); JV pp = JV::obj(); pp.set("user", JV::str(probes[i].first)); pp.set("password", JV::str(probes[i].second)); q.set("params", pp);
		s2.a.set("msg", q); p.ops.push_back(s2);
	}
	return p;
}

static std::string write_replay(const Plan &p, const JV &result, const std::string &sig);
static JV run_once(const Plan &p);
static std::string sig_of(const JV &r);

// check every image the credential file went through in one execution (r: its result with extra.file_log / extra.changes)
static void c20_check_images(const Plan &base, const JV &r, const std::string &ctx, C20Acc &acc, std::map<std::string, std::string> &verdict_cache) {
	const JV *ex = r.get("extra"); if (!ex) return;
	const JV *log = ex->get("file_log"), *changes = ex->get("changes"); if (!log || !changes) return;
	std::vector<std::pair<std::string, std::string>> probes; std::vector<std::map<std::string, std::string>> sets;
	c20_sets(base, *changes, probes, sets);
	for (size_t i = 1; i < log->a.size(); i++) {
		const JV &e = log->a[i];
		int c = (int)e.getd("change");
		if (c < 1 || c >= (int)sets.size()) c = c < 1 ? 0 : (int)sets.size() - 1;
		bool last_of_change = i + 1 == log->a.size() || (int)log->a[i + 1].getd("change") != c;
		const JV &chg = c >= 1 ? changes->a[c - 1] : JV();
		bool acknowledged = c >= 1 && chg.getb("applied") && last_of_change;
		acc.crash_points++; acc.ops[e.gets("op").substr(0, e.gets("op").find(':'))]++;
		std::string what = ctx + ", crash after file-system call " + std::to_string((int)e.getd("call")) + " (" + e.gets("op") + ") of password change " + std::to_string(c);
		struct Img { std::string data; bool exists; std::string kind; };
		std::vector<Img> imgs;
		imgs.push_back({hexdec(e.gets("image")), e.getb("exists"), "completed calls are durable"});
		const JV *torn = e.get("torn"); if (torn) for (auto &t : torn->a) { imgs.push_back({hexdec(t.s), true, "crash in the middle of this write (torn)"}); acc.torn++; }
		imgs.push_back({hexdec(e.gets("dur_image")), e.getb("dur_exists"), "loss of power (only synced data survives)"}); acc.powerloss++;
		for (auto &im : imgs) {
			JV allowed = JV::arr();
			bool torn_img = im.kind.find("torn") != std::string::npos, power = im.kind.find("power") != std::string::npos;
			if (acknowledged && !torn_img && !power) allowed.push(c20_vec(probes, sets[(size_t)c]));
			else { allowed.push(c20_vec(probes, sets[(size_t)(c >= 1 ? c - 1 : 0)])); allowed.push(c20_vec(probes, sets[(size_t)c])); }
			std::string key = std::string(im.exists ? "1" : "0") + im.data + "|" + allowed.dump();
			acc.images++;
			if (verdict_cache.count(key)) continue;
			std::string rule = power ? "file-after-power-loss-neither-old-nor-new" : (acknowledged && !torn_img ? "acknowledged-change-not-in-file" : "file-neither-old-nor-new");
			Plan rp = c20_reload_plan(base, im.data, im.exists, probes, allowed, what + " [" + im.kind + "]", rule);
			JV rr = run_once(rp); acc.reloads++;
			acc.traces.insert(rr.gets("trace"));
			verdict_cache[key] = sig_of(rr);
			if (rr.getb("violated")) {
				std::string sig = sig_of(rr);
				JV r2 = run_once(rp);
				JV v = JV::obj(); v.set("prop", JV::str(rr.gets("prop"))); v.set("rule", JV::str(rr.gets("rule"))); v.set("detail", JV::str(rr.gets("detail").substr(0, 1200)));
				if (sig_of(r2) != sig || r2.gets("trace") != rr.gets("trace")) v.set("gate", JV::str("FAILED"));
				else { rp.profile = "c20r:" + std::to_string(acc.reloads); v.set("replay", JV::str(write_replay(rp, rr, sig))); v.set("gate", JV::str("ok")); }
				acc.viol.push(v);
			}
		}
	}
}

static JV handle_c20(uint64_t seed, const JV &opts) {
	Plan base = generate_plan("c20", seed, opts);
	JV out = JV::obj(); out.set("seed", JV::str(std::to_string(seed))); out.set("nops", JV::num((double)base.ops.size()));
	C20Acc acc; std::map<std::string, std::string> cache;
	JV r0 = run_once(base);
	acc.traces.insert(r0.gets("trace"));
	const JV *st0 = r0.get("stats");
	if (r0.getb("violated") || r0.has("harness_error")) {
		JV v = JV::obj(); v.set("prop", JV::str(r0.gets("prop"))); v.set("rule", JV::str(r0.gets("rule"))); v.set("detail", JV::str(r0.gets("detail").substr(0, 1200)));
		if (r0.has("harness_error")) out.set("harness_error", JV::str(r0.gets("harness_error")));
		else { JV r2 = run_once(base); if (sig_of(r2) != sig_of(r0)) v.set("gate", JV::str("FAILED")); else { v.set("replay", JV::str(write_replay(base, r0, sig_of(r0)))); v.set("gate", JV::str("ok")); } acc.viol.push(v); }
	} else {
		c20_check_images(base, r0, "scenario " + std::to_string(seed) + ", no fault", acc, cache);
		int ncalls = r0.get("extra") ? (int)r0.get("extra")->getd("fs_calls") : 0;
		out.set("fs_calls", JV::num(ncalls));
		const JV *ch = r0.get("extra")->get("changes"); out.set("changes", JV::num(ch ? (double)ch->a.size() : 0));
		// every file-system call of the run fails in every way it can
		for (int k = 1; k <= ncalls; k++) {
			struct F { const char *kind; long arg; };
			static const F faults[] = {{"eio", 0}, {"enospc", 0}, {"short", 1}, {"short", -2}, {"short", -1}};
			for (auto &f : faults) {
				Plan p = base;
				p.hdr.put("fs_fault_at", JV::num(k)); p.hdr.put("fs_fault_kind", JV::str(f.kind));
				p.hdr.put("fs_fault_arg", JV::num((double)f.arg));   // short writes: 1 byte, half (-2), all but one byte (-1) of what was asked for
				JV r = run_once(p); acc.fault_runs++; acc.traces.insert(r.gets("trace"));
				bool fired = r.get("extra") && r.get("extra")->getb("fs_fault_fired");
				if (fired) acc.faults_fired++;
				if (std::string(f.kind) == "short" && !fired) continue;   // not a write
				std::string ctx = "scenario " + std::to_string(seed) + ", file-system call " + std::to_string(k) + " fails with " + f.kind + (std::string(f.kind) == "short" ? "(" + std::to_string(f.arg) + ")" : "");
				if (r.getb("violated")) {
					JV v = JV::obj(); v.set("prop", JV::str(r.gets("prop"))); v.set("rule", JV::str(r.gets("rule"))); v.set("detail", JV::str(ctx + ": " + r.gets("detail").substr(0, 1200)));
					JV r2 = run_once(p);
					if (sig_of(r2) != sig_of(r) || r2.gets("trace") != r.gets("trace")) v.set("gate", JV::str("FAILED"));
					else { p.profile = "c20:" + std::string(f.kind) + std::to_string(k); v.set("replay", JV::str(write_replay(p, r, sig_of(r)))); v.set("gate", JV::str("ok")); }
					acc.viol.push(v);
					continue;
				}
				c20_check_images(base, r, ctx, acc, cache);
			}
		}
	}
	// every write of the run accepted only in part, again and again (two and more short writes within one update); the update must still succeed
	if (!r0.getb("violated") && !r0.has("harness_error") && r0.get("extra") && r0.get("extra")->get("changes") && !r0.get("extra")->get("changes")->a.empty()) {
		for (long cap : {7L, 100L, 700L}) {
			Plan p = base;
			p.hdr.put("fs_fault_at", JV::num(0)); p.hdr.put("fs_fault_kind", JV::str("cap")); p.hdr.put("fs_fault_arg", JV::num((double)cap));
			JV r = run_once(p); acc.fault_runs++; acc.traces.insert(r.gets("trace"));
			if (r.get("extra") && r.get("extra")->getb("fs_fault_fired")) acc.faults_fired++;
			std::string ctx = "scenario " + std::to_string(seed) + ", every write accepted up to " + std::to_string(cap) + " bytes only";
			if (r.getb("violated")) {
				JV v = JV::obj(); v.set("prop", JV::str(r.gets("prop"))); v.set("rule", JV::str(r.gets("rule"))); v.set("detail", JV::str(ctx + ": " + r.gets("detail").substr(0, 1200)));
				JV r2 = run_once(p);
				if (sig_of(r2) != sig_of(r) || r2.gets("trace") != r.gets("trace")) v.set("gate", JV::str("FAILED"));
				else { p.profile = "c20:cap" + std::to_string(cap); v.set("replay", JV::str(write_replay(p, r, sig_of(r)))); v.set("gate", JV::str("ok")); }
				acc.viol.push(v);
				continue;
			}
			c20_check_images(base, r, ctx, acc, cache);
		}
	}
	out.set("violations", acc.viol);
	JV s2 = JV::obj(); s2.set("images", JV::num((double)acc.images)); s2.set("reloads", JV::num((double)acc.reloads)); s2.set("fault_runs", JV::num((double)acc.fault_runs)); s2.set("crash_points", JV::num((double)acc.crash_points));
	s2.set("torn_images", JV::num((double)acc.torn)); s2.set("powerloss_images", JV::num((double)acc.powerloss)); s2.set("faults_fired", JV::num((double)acc.faults_fired)); s2.set("distinct_traces", JV::num((double)acc.traces.size()));
	JV ops = JV::obj(); for (auto &kv : acc.ops) ops.set(kv.first, JV::num((double)kv.second)); s2.set("calls_by_kind", ops);
	if (st0) { s2.set("vtime_ns", JV::num(st0->getd("vtime_ns"))); s2.set("msgs", JV::num(st0->getd("msgs"))); const JV *pr = st0->get("probes"); if (pr) s2.set("probes", *pr); }
	out.set("stats", s2);
	return out;
}

static int g_shrink_budget = 0;
static bool still_fails(const Plan &p, const std::string &sig) {
	if (g_shrink_budget <= 0) return false;
	g_shrink_budget--;
	JV r = run_once(p);
	return sig_of(r) == sig;
}

static Plan shrink(Plan p, const std::string &sig) {
	g_shrink_budget = 400;
	// 1. drop whole clients
	bool progress = true;
	while (progress && g_shrink_budget > 0) {
		progress = false;
		std::set<int> cs; for (auto &o : p.ops) if (o.c >= 0) cs.insert(o.c);
		for (int c : cs) {
			Plan q = p; q.ops.clear(); for (auto &o : p.ops) if (o.c != c) q.ops.push_back(o);
			if (q.ops.size() < p.ops.size() && still_fails(q, sig)) { p = q; progress = true; break; }
		}
	}
	// 2. ddmin over ops
	size_t chunk = p.ops.size() / 2;
	while (chunk >= 1 && g_shrink_budget > 0) {
		bool removed = false;
		for (size_t i = 0; i + chunk <= p.ops.size() && g_shrink_budget > 0;) {
			Plan q = p; q.ops.erase(q.ops.begin() + (long)i, q.ops.begin() + (long)(i + chunk));
			if (still_fails(q, sig)) { p = q; removed = true; } else i += chunk;
		}
		if (!removed || chunk == 1) { if (chunk == 1 && !removed) break; chunk = chunk > 1 ? chunk / 2 : 1; }
	}
	// 3. simplify ops and header
	auto try_mut = [&](std::function<bool(Plan &)> f) { Plan q = p; if (f(q) && still_fails(q, sig)) p = q; };
	try_mut([](Plan &q) { bool c = false; for (auto &o : q.ops) if (o.a.has("seg")) { JV a = JV::obj(); for (auto &kv : o.a.o) if (kv.first != "seg" && kv.first != "gap") a.set(kv.first, kv.second); o.a = a; c = true; } return c; });
	try_mut([](Plan &q) { bool c = false; for (auto &o : q.ops) if (o.hold) { o.hold = false; c = true; } return c; });
	try_mut([](Plan &q) { bool c = false; for (auto &o : q.ops) if (o.dt) { o.dt = 0; c = true; } return c; });
	try_mut([](Plan &q) { bool c = false; for (auto &o : q.ops) if (o.a.has("rdcap")) { JV a = JV::obj(); for (auto &kv : o.a.o) if (kv.first != "rdcap") a.set(kv.first, kv.second); o.a = a; c = true; } return c; });
	try_mut([](Plan &q) { JV h = JV::obj(); bool c = false; for (auto &kv : q.hdr.o) { if (kv.first == "shuffle" && kv.second.d != 0) { h.set("shuffle", JV::num(0)); c = true; } else h.set(kv.first, kv.second); } q.hdr = h; return c; });
	try_mut([](Plan &q) { JV h = JV::obj(); bool c = false; for (auto &kv : q.hdr.o) { if (kv.first == "fill" && kv.second.d != 3) { h.set("fill", JV::num(3)); c = true; } else h.set(kv.first, kv.second); } q.hdr = h; return c; });
	for (size_t i = 0; i < p.ops.size() && g_shrink_budget > 0; i++) {
		if (p.ops[i].hold) try_mut([i](Plan &q) { q.ops[i].hold = false; return true; });
		if (p.ops[i].dt) try_mut([i](Plan &q) { q.ops[i].dt = 0; return true; });
		if (p.ops[i].a.has("seg")) try_mut([i](Plan &q) { JV a = JV::obj(); for (auto &kv : q.ops[i].a.o) if (kv.first != "seg" && kv.first != "gap") a.set(kv.first, kv.second); q.ops[i].a = a; return true; });
	}
	return p;
}

static std::string write_replay(const Plan &p, const JV &result, const std::string &sig) {
	mkdir(g_replay_dir.c_str(), 0777);
	std::string prop = result.gets("prop", "X");
	char name[256]; snprintf(name, sizeof name, "%s/%s-%s-%llu.json", g_replay_dir.c_str(), prop.c_str(), p.profile.c_str(), (unsigned long long)p.seed);
	JV j = p.to_json();
	j.set("expect_sig", JV::str(sig));
	j.set("expect_trace", JV::str(result.gets("trace")));
	j.set("detail", JV::str(result.gets("detail")));
	std::ofstream f(name); f << j.dump() << "\n";
	return name;
}

// full handling of one plan: run, and on violation gate + shrink + write the replay file
static JV handle(const Plan &p, bool do_shrink) {
	JV r = run_once(p);
	r.set("seed", JV::str(std::to_string(p.seed))); r.set("profile", JV::str(p.profile)); r.set("nops", JV::num((double)p.ops.size()));
	if (!r.getb("violated")) return r;
	std::string sig = sig_of(r);
	JV r2 = run_once(p);
	if (sig_of(r2) != sig || r2.gets("trace") != r.gets("trace")) {
		if (r.gets("rule") == "hang" && !r2.getb("violated")) {
			// the wall-clock limit is the one judgement that depends on real time: a run that was merely slow once (loaded machine) is not a finding and not a harness defect
			r2.set("seed", JV::str(std::to_string(p.seed))); r2.set("profile", JV::str(p.profile)); r2.set("nops", JV::num((double)p.ops.size()));
			r2.set("inconclusive", JV::str("wall-clock limit reached once, not on the second execution"));
			return r2;
		}
		r.set("gate", JV::str("FAILED: second execution gave " + sig_of(r2) + " trace " + r2.gets("trace")));
		return r;
	}
	Plan m = do_shrink ? shrink(p, sig) : p;
	JV rm = run_once(m);
	if (sig_of(rm) != sig) { m = p; rm = r; }
	std::string path = write_replay(m, rm, sig);
	r.set("sig", JV::str(sig)); r.set("replay", JV::str(path)); r.set("min_ops", JV::num((double)m.ops.size()));
	r.set("min_detail", JV::str(rm.gets("detail")));
	std::set<std::string> kinds; for (auto &o : m.ops) { std::string k = o.k; if (k == "send" && o.a.has("msg")) { const JV *mm = o.a.get("msg"); if (mm->t == JV::Obj) k += ":" + mm->gets("method", mm->has("result") || mm->has("error") ? "reply" : "?"); else k += ":batch"; } kinds.insert(k); }
	std::string ks; for (auto &k : kinds) ks += (ks.empty() ? "" : ",") + k;
	r.set("min_kinds", JV::str(ks));
	r.set("gate", JV::str("ok"));
	return r;
}

static bool load_plan(const std::string &file, Plan &p, JV &whole) {
	std::ifstream f(file); if (!f) return false;
	std::stringstream ss; ss << f.rdbuf();
	if (!json_parse(ss.str(), whole)) return false;
	return Plan::from_json(whole, p);
}

int main(int argc, char **argv) {
	// fixed address-space layout: re-exec once with ASLR disabled and a fixed environment
	if (!getenv("CJETSIM_REEXEC")) {
		personality(ADDR_NO_RANDOMIZE);
		std::string sym = "ASAN_SYMBOLIZER_PATH=/usr/bin/llvm-symbolizer-14";
		std::string rd = std::string("CJETSIM_REPLAYS=") + (getenv("CJETSIM_REPLAYS") ? getenv("CJETSIM_REPLAYS") : "replays");
		char *envp[] = {(char *)"CJETSIM_REEXEC=1", (char *)sym.c_str(), (char *)rd.c_str(), (char *)"LC_ALL=C", (char *)"TZ=UTC", nullptr};
		execve("/proc/self/exe", argv, envp);
	}
	if (getenv("CJETSIM_REPLAYS")) g_replay_dir = getenv("CJETSIM_REPLAYS");
	struct rlimit rl = {0, 0}; setrlimit(RLIMIT_CORE, &rl);
	signal(SIGPIPE, SIG_IGN);
	std::string mode = argc > 1 ? argv[1] : "";
	if (mode == "--variant") { printf("%s\n", g_variant.name); return 0; }
	if (mode == "--gen" && argc >= 4) {
		JV opts = JV::obj(); if (argc >= 5) json_parse(argv[4], opts);
		Plan p = generate_plan(argv[2], strtoull(argv[3], nullptr, 10), opts);
		printf("%s\n", p.to_json().dump().c_str());
		return 0;
	}
	if (mode == "--c15plan" && argc >= 3) { printf("%s\n", c15_scenario(atoi(argv[2])).to_json().dump().c_str()); return 0; }
	if (mode == "--derive" && argc >= 3) {
		Plan p; JV whole;
		if (!load_plan(argv[2], p, whole)) return 2;
		printf("%s\n", derive_b(p).to_json().dump().c_str());
		return 0;
	}
	if (mode == "--replay" && argc >= 3) {
		Plan p; JV whole;
		if (!load_plan(argv[2], p, whole)) { fprintf(stderr, "cannot load plan %s\n", argv[2]); return 2; }
		JV r = run_once(p);
		std::string want = whole.gets("expect_sig");
		printf("%s\n", r.dump().c_str());
		if (!want.empty()) {
			bool same = sig_of(r) == want && (whole.gets("expect_trace").empty() || whole.gets("expect_trace") == r.gets("trace"));
			fprintf(stderr, "replay: expected %s trace %s, got %s trace %s -> %s\n", want.c_str(), whole.gets("expect_trace").c_str(), sig_of(r).c_str(), r.gets("trace").c_str(), same ? "REPRODUCED" : "NOT REPRODUCED");
			return same ? 1 : 0;
		}
		return r.getb("violated") ? 1 : 0;
	}
	if (mode == "--server") {
		std::string line;
		while (std::getline(std::cin, line)) {
			std::istringstream is(line); std::string cmd; is >> cmd;
			if (cmd == "quit") break;
			if (cmd == "run") {
				std::string profile; unsigned long long seed; is >> profile >> seed;
				std::string rest; std::getline(is, rest);
				JV opts = JV::obj(); if (rest.find('{') != std::string::npos) json_parse(rest.substr(rest.find('{')), opts);
				Plan p = generate_plan(profile, seed, opts);
				JV r = handle(p, !opts.getb("noshrink"));
				printf("%s\n", r.dump().c_str()); fflush(stdout);
			} else if (cmd == "c20") {
				unsigned long long seed = 0; is >> seed;
				JV r = handle_c20(seed, JV::obj());
				printf("%s\n", r.dump().c_str()); fflush(stdout);
			} else if (cmd == "c15") {
				// single-fault enumeration: scenario idx, allocation indices kfrom..kto (0 = the fault-free run that counts allocations)
				int idx = 0; long kfrom = 0, kto = 0; is >> idx >> kfrom >> kto;
				Plan base = c15_scenario(idx);
				JV out = JV::obj(); out.set("idx", JV::num(idx)); out.set("nops", JV::num((double)base.ops.size()));
				JV arr = JV::arr();
				for (long k = kfrom; k <= kto; k++) {
					Plan p = base;
					if (k > 0) p.hdr.put("allocfail", JV::arr().push(JV::num((double)k)));
					JV r = run_once(p);
					JV e = JV::obj(); e.set("k", JV::num((double)k));
					const JV *st = r.get("stats");
					double allocs = st ? st->getd("allocs") : 0;
					e.set("allocs", JV::num(allocs));
					bool reached = k > 0 && (r.getb("crash") || allocs >= (double)k);
					e.set("reached", JV::boolean(reached));
					if (st) { const JV *pr = st->get("probes"); if (pr) { e.set("startup", JV::boolean(pr->getd("alloc_failed_during_startup") > 0)); e.set("canary", JV::boolean(pr->getd("canary_ok") > 0)); } e.set("vtime_ns", JV::num(st->getd("vtime_ns"))); e.set("steps", JV::num(st->getd("steps"))); e.set("msgs", JV::num(st->getd("msgs"))); }
					e.set("trace", JV::str(r.gets("trace")));
					if (r.has("inconclusive")) e.set("inconclusive", JV::str(r.gets("inconclusive")));
					if (r.has("harness_error")) e.set("harness_error", JV::str(r.gets("harness_error")));
					if (r.getb("violated")) {
						std::string sig = sig_of(r);
						JV r2 = run_once(p);
						if (sig_of(r2) != sig || r2.gets("trace") != r.gets("trace")) e.set("gate", JV::str("FAILED: second execution gave " + sig_of(r2)));
						else { p.profile = "c15:" + std::to_string(idx) + ":" + std::to_string(k); std::string path = write_replay(p, r, sig); e.set("replay", JV::str(path)); e.set("gate", JV::str("ok")); }
						e.set("violated", JV::boolean(true)); e.set("prop", JV::str(r.gets("prop"))); e.set("rule", JV::str(r.gets("rule"))); e.set("detail", JV::str(r.gets("detail").substr(0, 1500)));
					}
					arr.push(e);
				}
				out.set("results", arr);
				printf("%s\n", out.dump().c_str()); fflush(stdout);
			} else if (cmd == "plan") {
				std::string file; is >> file; int sh = 0; is >> sh;
				Plan p; JV whole;
				if (!load_plan(file, p, whole)) { printf("{\"harness_error\":\"cannot load plan\"}\n"); fflush(stdout); continue; }
				JV r = handle(p, sh != 0);
				r.set("file", JV::str(file));
				printf("%s\n", r.dump().c_str()); fflush(stdout);
			} else if (cmd == "once") {
				std::string file; is >> file;
				Plan p; JV whole;
				if (!load_plan(file, p, whole)) { printf("{\"harness_error\":\"cannot load plan\"}\n"); fflush(stdout); continue; }
				JV r = run_once(p); r.set("file", JV::str(file));
				printf("%s\n", r.dump().c_str()); fflush(stdout);
			} else { printf("{\"harness_error\":\"unknown command\"}\n"); fflush(stdout); }
		}
		return 0;
	}
	fprintf(stderr, "usage: cjetsim --server | --replay <file> | --gen <profile> <seed> [opts]\n");
	return 2;
}
