// cjetsim: shared declarations (plan, kernel model, clients, oracles, model)
#pragma once
#include <cstdint>
#include <cstddef>
#include <string>
#include <vector>
#include <deque>
#include <map>
#include <set>
#include <functional>
#include "rng.h"
#include "json.h"

// ------------------------------------------------------------------ plan
struct Op {
	std::string k;      // connect send close stall drain resume sockerr acceptfail advance sigterm policy rdcap
	int c = -1;         // plan-level client index
	bool hold = false;  // do not hand control back to the daemon after this op (batching)
	uint64_t dt = 0;    // virtual ns between the previous op and this one
	uint64_t uid = 0;   // stable id for residual random choices
	JV a = JV::obj();   // kind-specific arguments
	JV to_json() const;
	static Op from_json(const JV &j);
};

struct Plan {
	std::string profile;
	uint64_t seed = 0;
	JV hdr = JV::obj();          // daemon args, credential file, fill pattern, oracle mode ...
	std::vector<Op> ops;
	JV to_json() const;
	static bool from_json(const JV &j, Plan &p);
};

// compile-time configuration of the daemon variant this binary was built with
struct VariantCfg {
	const char *name;
	int max_message, max_write_buffer, element_order, routing_order, epoll_events, fetch_table, max_matchers;
	long heap_kb; bool add_local_only; double routed_timeout;
};
extern const VariantCfg g_variant;

// ------------------------------------------------------------------ violations / stats
struct Violation { std::string prop, rule, detail; };

struct RunStats {
	std::map<std::string, uint64_t> probes;   // situation probes and fault counters ("fault:<kind>")
	uint64_t steps = 0, batches = 0, multi_batches = 0, max_batch = 0;
	uint64_t msgs_consumed = 0, frames_seen = 0, bytes_in = 0, bytes_out = 0;
	uint64_t vtime_ns = 0, allocs = 0, syscalls = 0;
	std::set<uint64_t> state_fps, batch_sigs;
	void probe(const std::string &n, uint64_t k = 1) { probes[n] += k; }
};

// ------------------------------------------------------------------ frames & expectations
struct Frame {                      // one decoded unit of daemon output on a connection
	enum T { JSON, BADJSON, HTTP, WS_CTRL, WS_OTHER, GARBAGE } t = JSON;
	JV j; std::string raw;
	int wsop = 0; bool fin = true; int rsv = 0; bool masked = false; bool minimal = true;
	int http_status = 0;
};

struct Exp {
	enum Kind { RESP, NOTIFY, ROUTED, CLOSE, PONG } kind = RESP;
	enum RK { R_TRUE, R_ERR_DAEMON, R_RESULT_EQ, R_ERROR_EQ, R_EITHER, R_ANYRESULT, R_GETSET, R_ERR_OR_GETSET, R_OK_OR_ERR } rk = R_TRUE;
	JV id;                      // RESP: expected id
	JV payload;                 // RESP *_EQ / GETSET
	JV fetchid; std::string event, path; bool check_value = false; bool has_value = false; JV value; // NOTIFY
	JV params; int routed_ref = -1; // ROUTED
	int ws_status = 0; bool need_frame = false, got_frame = false; // CLOSE on a WebSocket connection: required close-frame status (0 any, 10027 = 1002 or 1007)
	std::string prop;           // property that owns this expectation
	int rank = 0;               // within a group lower ranks must be matched first
	uint64_t group = 0;
	int decision = -1;          // R_EITHER: index into Model::decisions
	bool optional = false;      // may be absent (used with decisions)
	std::string why;
	std::string describe() const;
};

struct ModelHost {
	virtual ~ModelHost() {}
	virtual void expect(int c, const Exp &e) = 0;
	virtual uint64_t vnow() = 0;
	virtual void probe(const std::string &n) = 0;
	virtual void violation(const std::string &prop, const std::string &rule, const std::string &detail) = 0;
	virtual void harness_error(const std::string &what) = 0;
	virtual void fetch_changed(int c, const JV &id) { (void)c; (void)id; }
	virtual bool observable(int c) { (void)c; return true; }
	virtual void password_resolved(int index, bool applied) { (void)index; (void)applied; }
	virtual int password_changes() { return 0; }
	virtual void password_changed(const std::string &user, const std::string &oldpw, const std::string &newpw, bool tentative) { (void)user; (void)oldpw; (void)newpw; (void)tentative; }
};

// ------------------------------------------------------------------ reference model
struct Rule {                       // fetch path rule (Appendix B of DESIGN.md)
	struct M { std::string name; std::vector<std::string> ops; };
	std::vector<M> ms; bool ci = false; bool all = false;
	bool matches(const std::string &path) const;
};
// parse a rule object; returns 0 ok, 1 refused (daemon must answer with an error), 2 repeated option key (either refused or as given once: `out` holds the rule as given once), 3 unmodelled shape
int parse_rule(const JV *pathobj, int max_matchers, Rule &out);

struct Model {
	struct Fetch { JV id; Rule rule; std::set<std::string> reported; uint64_t serial = 0; };
	struct Peer {
		int c = -1; bool alive = false; bool local = false; std::string transport; std::string name;
		bool authed = false; std::string user; std::set<std::string> fg, sg, cg;
		std::vector<Fetch> fetches;
	};
	struct Elem {
		std::string path; int owner = -1; bool is_state = false; JV value; bool fetch_only = false;
		std::set<std::string> fg, sg, cg; double timeout_s = 0; uint64_t serial = 0;
	};
	struct Routed {
		int caller = -1, owner = -1; bool has_id = false; JV caller_id; std::string path; bool is_call = false;
		JV params; uint64_t deadline = 0; uint64_t timeout_ns = 0; std::string rid; bool rid_known = false;
		int timerfd = -1; int state = 0; // 0 pending, 1 answered by owner, 2 timed out, 3 owner gone, 4 caller gone, 5 refused
		uint64_t created = 0; std::string tprec;
	};
	std::map<std::string, int> reply_instance;   // token of an owner's answer -> index of the routed request whose frame it answers
	int latest_routed_with_rid(int owner, const std::string &rid) const { for (int i = (int)routed.size() - 1; i >= 0; i--) if (routed[(size_t)i].owner == owner && routed[(size_t)i].rid_known && routed[(size_t)i].rid == rid) return i; return -1; }
	struct User { std::string password; std::set<std::string> fg, sg, cg; bool admin = false, readonly = false, has_password = true, has_auth = true; };
	struct Decision { int state = 0; std::function<void(bool ok)> commit; std::string what; bool silent_refusal = false; bool silent_accept = false; };

	ModelHost *host = nullptr;
	std::map<int, Peer> peers;
	std::map<std::string, Elem> elems;
	std::vector<Routed> routed;
	std::vector<Decision> decisions;
	bool have_creds = false;
	std::map<std::string, User> users;
	std::set<std::string> all_groups;
	uint64_t group_ctr = 0, serial_ctr = 0;
	bool allow_either_add = false, allow_either_route = false; // capacity-limited variants
	bool route_may_fail = false;                               // descriptor-exhaustion faults are being injected
	int max_matchers = 12;
	std::string notify_prop = "C01";                             // property that owns notification expectations in this profile
	bool passwd_may_fail = false;                               // file-system faults are being injected: a password change may be answered with an error (and then must not have happened)
	bool faulty_add_either = false;                             // containment profile: an impaired peer's own add may be aborted; a healthy observer's view decides
	bool notify_hit_unobservable = false;                       // the last notify() had to deliver to a peer whose stream is not observable (stalled, failing)
	int opt_decision = -1;                                      // >=0: notifications issued now are optional until that decision is known
	bool add_local_only = false;
	double default_timeout_s = 5.0;

	void on_connect(int c, const std::string &transport, bool local);
	// returns false when the message makes the daemon drop the connection
	bool on_message(int c, const std::string &text);
	void on_peer_gone(int c, bool expect_close, int ws_status = 0, bool need_frame = false, const std::string &close_prop = "C05");
	void on_timer_armed(int fd, uint64_t ns);
	void on_timer_fired(int fd);
	void on_timer_closed(int fd);
	void on_routed_seen(int ref, const std::string &rid);
	bool on_routed_observed(int owner, const std::string &path, const JV *params, const std::string &rid);   // false: no request of the model explains the routed frame (yet)
	void resolve_decision(int d, bool ok);
	bool decision_pending() const;
	std::vector<int> silent_decisions() const;
	void check_deadlines(uint64_t now, bool final);
	int pending_routed() const;
	bool has_unbound_routed() const;
	bool visible(const Peer &p, const Elem &e) const;
	// the result a get with these params must carry for peer c; returns parse_rule's code (0 ok, 1 refused, 2 repeated option key: result or refusal, 3 unmodelled)
	int get_image(int c, const JV &params, JV &set, bool *all = nullptr) const;
	std::string image_key() const;   // canonical text of everything a get can depend on
	uint64_t fingerprint() const;

private:
	bool rpc(int c, const JV &req);
	void respond(int c, const JV &req, Exp::RK rk, const std::string &prop, const std::string &why, const JV &payload = JV());
	void notify(const Elem &e, const char *event, int only_peer = -1, const JV *only_fetch = nullptr, int rank = 0);
	bool do_add(int c, const JV &req, const JV &params);
	bool do_remove(int c, const JV &req, const JV &params);
	bool do_change(int c, const JV &req, const JV &params);
	bool do_setcall(int c, const JV &req, const JV &params, bool is_call);
	bool do_fetch(int c, const JV &req, const JV &params);
	bool do_unfetch(int c, const JV &req, const JV &params);
	bool do_get(int c, const JV &req, const JV &params);
	bool do_config(int c, const JV &req, const JV &params);
	bool do_auth(int c, const JV &req, const JV &params);
	bool do_passwd(int c, const JV &req, const JV &params);
	bool do_reply(int c, const JV &req, bool is_error);
	void remove_elem(const std::string &path);
};

bool id_equal(const JV &a, const JV &b);

// ------------------------------------------------------------------ codecs (harness-side, independent of the daemon)
std::string raw_frame(const std::string &payload);
std::string ws_frame(int opcode, const std::string &payload, bool fin = true, bool masked = true, uint32_t mask = 0x12345678, int rsv = 0, int lenenc = 0);
std::string ws_handshake(const std::string &target, const std::string &key, const std::string &protocol = "jet", const std::string &extra = "");
std::string ws_accept_for(const std::string &key);
std::string b64(const std::string &in);
std::string sha1(const std::string &in);
std::string hexenc(const std::string &s);
std::string hexdec(const std::string &s);
std::string ascii_safe(const std::string &s);   // printable rendering of arbitrary bytes for reports
bool valid_utf8(const std::string &s);

// ------------------------------------------------------------------ run entry points (world.cpp)
struct RunResult {
	bool violated = false; Violation v;
	bool inconclusive = false; std::string inconclusive_why;
	bool harness_error = false; std::string harness_what;
	uint64_t trace_hash = 0;
	int exit_status = 0;
	bool nontrivial = false;
	RunStats st;
	JV extra = JV::obj();
	JV to_json() const;
};
// runs the plan inside this process (calls the daemon's real main()); writes the result as one JSON line to result_fd and _exits.
[[noreturn]] void run_plan_child(const Plan &p, int result_fd);

// generator (gen.cpp)
Plan generate_plan(const std::string &profile, uint64_t seed, const JV &opts);
std::vector<std::string> list_profiles();
Plan derive_b(const Plan &a);
int c15_corpus_size();
Plan c15_scenario(int idx);   // fixed corpus for single-allocation-failure enumeration   // c09: re-segmented, re-batched twin of a canonical plan
