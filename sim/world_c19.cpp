// C19: permessage-deflate client for the harness (system zlib; shares no code with the daemon's compression.c or its bundled zlib)
#include "wimpl.h"
#include <zlib.h>
#include <cstring>
#include <algorithm>
#include <sstream>

struct C19 {
	bool negotiated = false, checked = false, broken = false;
	int s_bits = 15, c_bits = 15; bool s_nct = false, c_nct = false;
	z_stream def, inf; bool def_init = false, inf_init = false;
	std::deque<std::pair<int, std::string>> expect;     // (opcode, payload) the echo endpoint must return, in order
	std::string frag; int frag_op = 0; bool frag_comp = false; bool in_frag = false;
	uint64_t echoed = 0;
	bool lenient = false;   // an allocation failed while this connection existed: which messages come back is not predictable, but what comes back must still be a valid (inflatable) message
	bool stray_sent = false, stray_closed = false;   // a frame sequence that RFC 6455 5.2/5.4 makes a protocol error (1002) was sent (op member "stray", kind in "vkind")
	std::deque<std::string> pongs;                   // payloads of pings sent inside fragmented messages: each must come back in a pong, in order
	~C19() { if (def_init) deflateEnd(&def); if (inf_init) inflateEnd(&inf); }
};

void Client::c19_set_lenient() { if (c19) c19->lenient = true; }

static std::string trim(const std::string &s) { size_t a = s.find_first_not_of(" \t"), b = s.find_last_not_of(" \t"); return a == std::string::npos ? "" : s.substr(a, b - a + 1); }

struct ExtOffer { std::vector<std::pair<std::string, std::string>> params; bool valid = true; };

static std::vector<ExtOffer> parse_ext(const std::string &value) {
	std::vector<ExtOffer> out;
	std::stringstream ss(value); std::string item;
	while (std::getline(ss, item, ',')) {
		std::stringstream s2(item); std::string part; bool first = true; ExtOffer o; bool pmd = false;
		while (std::getline(s2, part, ';')) {
			part = trim(part);
			if (first) { pmd = part == "permessage-deflate"; first = false; continue; }
			size_t eq = part.find('=');
			std::string k = trim(eq == std::string::npos ? part : part.substr(0, eq)), v = eq == std::string::npos ? "" : trim(part.substr(eq + 1));
			if (v.size() >= 2 && v.front() == '"' && v.back() == '"') v = v.substr(1, v.size() - 2);
			o.params.emplace_back(k, v);
		}
		if (pmd) out.push_back(o);
	}
	return out;
}

static bool legal_bits(const std::string &v, int &n) { if (v.empty() || v.size() > 2) return false; for (char c : v) if (!isdigit((unsigned char)c)) return false; if (v[0] == '0') return false; n = atoi(v.c_str()); return n >= 8 && n <= 15; }

// RFC 7692 section 7.1: is `resp` a legal answer to offer `o`? (why: first reason it is not)
static bool legal_response(const ExtOffer &o, const ExtOffer &resp, std::string &why) {
	std::map<std::string, std::string> off; std::set<std::string> seen;
	for (auto &p : o.params) { if (off.count(p.first)) return (why = "offer itself is invalid"), false; off[p.first] = p.second; }
	for (auto &p : resp.params) {
		if (seen.count(p.first)) { why = "parameter " + p.first + " appears twice"; return false; }
		seen.insert(p.first);
		int n = 0;
		if (p.first == "server_no_context_takeover" || p.first == "client_no_context_takeover") { if (!p.second.empty()) { why = p.first + " must not have a value"; return false; } }
		else if (p.first == "server_max_window_bits") {
			if (!legal_bits(p.second, n)) { why = "server_max_window_bits=" + p.second + " is not a value 8..15"; return false; }
			int offered = 0; if (off.count(p.first) && legal_bits(off[p.first], offered) && n > offered) { why = "server_max_window_bits=" + p.second + " is larger than the offered " + off[p.first]; return false; }
		} else if (p.first == "client_max_window_bits") {
			if (!off.count(p.first)) { why = "client_max_window_bits in the response although the client did not offer it"; return false; }
			if (!legal_bits(p.second, n)) { why = "client_max_window_bits=" + p.second + " is not a value 8..15"; return false; }
			int offered = 0; if (!off[p.first].empty() && legal_bits(off[p.first], offered) && n > offered) { why = "client_max_window_bits=" + p.second + " is larger than the offered " + off[p.first]; return false; }
		} else { why = "unknown parameter " + p.first; return false; }
	}
	if (off.count("server_no_context_takeover") && !seen.count("server_no_context_takeover")) { why = "offer with server_no_context_takeover accepted without confirming it"; return false; }
	if (off.count("server_max_window_bits") && !seen.count("server_max_window_bits")) { why = "offer with server_max_window_bits accepted without confirming it"; return false; }
	return true;
}

static bool offer_is_valid(const ExtOffer &o) {
	std::set<std::string> seen;
	for (auto &p : o.params) {
		if (seen.count(p.first)) return false;
		seen.insert(p.first); int n;
		if (p.first == "server_no_context_takeover" || p.first == "client_no_context_takeover") { if (!p.second.empty()) return false; }
		else if (p.first == "server_max_window_bits") { if (!legal_bits(p.second, n)) return false; }
		else if (p.first == "client_max_window_bits") { if (!p.second.empty() && !legal_bits(p.second, n)) return false; }
		else return false;
	}
	return true;
}

void World::c19_on_handshake_response(Client &cl, const Frame &f) {
	if (!cl.c19) cl.c19 = new C19();
	C19 &c = *cl.c19;
	c.checked = true;
	if (cl.c19_broken_by_fault) c.lenient = true;
	if (f.http_status != 101) { probe("c19_upgrade_refused:" + std::to_string(f.http_status)); c.broken = true; cl.no_expect = true; return; }
	std::string low; for (char ch : f.raw) low += (char)tolower((unsigned char)ch);
	std::string offer = hexdec(cl.policy.gets("offerhex"));
	std::vector<ExtOffer> offers = parse_ext(offer);
	size_t pp = low.find("\r\nsec-websocket-extensions:");
	if (pp == std::string::npos) {
		probe("c19_not_negotiated");
		// declining is always legal
		return;
	}
	size_t e2 = f.raw.find("\r\n", pp + 2);
	std::string val = trim(f.raw.substr(pp + 27, e2 - pp - 27));
	if (low.find("\r\nsec-websocket-extensions:", pp + 2) != std::string::npos) violation("C19", "illegal-negotiation", "two Sec-WebSocket-Extensions headers in the response");
	std::vector<ExtOffer> resp = parse_ext(val);
	if (resp.size() != 1) violation("C19", "illegal-negotiation", "response '" + ascii_safe(val) + "' is not exactly one permessage-deflate element");
	if (offers.empty()) violation("C19", "illegal-negotiation", "response announces permessage-deflate ('" + ascii_safe(val) + "') although the client did not offer it");
	bool ok = false; std::string why, why1;
	for (auto &o : offers) { if (!offer_is_valid(o)) continue; std::string w; if (legal_response(o, resp[0], w)) { ok = true; break; } if (why1.empty()) why1 = w; }
	bool any_valid = false; for (auto &o : offers) if (offer_is_valid(o)) any_valid = true;
	if (!any_valid) violation("C19", "illegal-negotiation", "every offer in '" + ascii_safe(offer) + "' is invalid, yet the response accepts one: '" + ascii_safe(val) + "'");
	if (!ok) violation("C19", "illegal-negotiation", "offer '" + ascii_safe(offer) + "' answered with '" + ascii_safe(val) + "': " + why1);
	c.negotiated = true; probe("c19_negotiated");
	for (auto &p : resp[0].params) {
		if (p.first == "server_no_context_takeover") { c.s_nct = true; probe("c19_param:server_no_context_takeover"); }
		if (p.first == "client_no_context_takeover") { c.c_nct = true; probe("c19_param:client_no_context_takeover"); }
		if (p.first == "server_max_window_bits") { c.s_bits = atoi(p.second.c_str()); probe("c19_param:server_max_window_bits"); }
		if (p.first == "client_max_window_bits") { c.c_bits = atoi(p.second.c_str()); probe("c19_param:client_max_window_bits=" + p.second); }
	}
	memset(&c.def, 0, sizeof c.def); memset(&c.inf, 0, sizeof c.inf);
	// zlib cannot produce raw deflate with a 256-byte window; stored blocks (level 0) never refer back, so they are valid for any window
	if (deflateInit2(&c.def, c.c_bits == 8 ? Z_NO_COMPRESSION : Z_DEFAULT_COMPRESSION, Z_DEFLATED, c.c_bits == 8 ? -9 : -c.c_bits, 8, Z_DEFAULT_STRATEGY) == Z_OK) c.def_init = true;
	if (inflateInit2(&c.inf, -c.s_bits) == Z_OK) c.inf_init = true;
	if (!c.def_init || !c.inf_init) harness_error("system zlib refuses the negotiated window sizes");
}

// RFC 7692 7.2.3.4: a compressor may end a message with a block that has BFINAL set (deflate with Z_FINISH); it then appends an empty stored block, of which
// the last four bytes are removed again: one 0x00 byte remains. The compressor starts afresh afterwards (it refers to nothing it sent before).
static std::string c19_deflate_bfinal(C19 &c, const std::string &msg) {
	std::string out; out.resize(msg.size() + msg.size() / 8 + 64);
	c.def.next_in = (Bytef *)msg.data(); c.def.avail_in = (uInt)msg.size();
	size_t have = 0;
	for (;;) {
		c.def.next_out = (Bytef *)&out[have]; c.def.avail_out = (uInt)(out.size() - have);
		int rc = deflate(&c.def, Z_FINISH);
		have = out.size() - c.def.avail_out;
		if (rc == Z_STREAM_END) break;
		out.resize(out.size() * 2);
	}
	out.resize(have);
	out += '\0';
	deflateReset(&c.def);
	return out;
}

static std::string c19_deflate(C19 &c, const std::string &msg) {
	std::string out; out.resize(msg.size() + msg.size() / 8 + 64);
	c.def.next_in = (Bytef *)msg.data(); c.def.avail_in = (uInt)msg.size();
	size_t have = 0;
	for (;;) {
		c.def.next_out = (Bytef *)&out[have]; c.def.avail_out = (uInt)(out.size() - have);
		deflate(&c.def, Z_SYNC_FLUSH);
		have = out.size() - c.def.avail_out;
		if (c.def.avail_out != 0) break;
		out.resize(out.size() * 2);
	}
	out.resize(have);
	if (out.size() >= 4) out.resize(out.size() - 4);   // 00 00 ff ff
	if (out.empty()) out = std::string(1, '\0');       // deflate makes no progress without input right after a flush; RFC 7692 7.2.3.6: an empty message is the single byte 0x00
	if (c.c_nct) deflateReset(&c.def);
	return out;
}

static bool c19_inflate(C19 &c, const std::string &payload, std::string &out) {
	std::string in = payload + std::string("\x00\x00\xff\xff", 4);
	c.inf.next_in = (Bytef *)in.data(); c.inf.avail_in = (uInt)in.size();
	out.clear(); char buf[4096];
	for (int guard = 0; guard < 100000; guard++) {
		c.inf.next_out = (Bytef *)buf; c.inf.avail_out = sizeof buf;
		int rc = inflate(&c.inf, Z_SYNC_FLUSH);
		out.append(buf, sizeof buf - c.inf.avail_out);
		if (rc == Z_STREAM_END) break;
		if (rc != Z_OK && rc != Z_BUF_ERROR) return false;
		if (c.inf.avail_in == 0 && c.inf.avail_out != 0) break;
		if (out.size() > (64u << 20)) return false;
	}
	if (c.s_nct) inflateReset(&c.inf);
	return true;
}

// op "c19": {"hex": payload, "bin": bool, "frags": [sizes], "plain": bool, "corrupt": "flip"|"trunc"|"junk", "cpos": fraction}
void World::c19_send(Client &cl, const Op &op) {
	if (!cl.connected || cl.client_closed || cl.daemon_closed) return;
	if (!cl.c19 || !cl.c19->checked) { probe("c19_send_before_handshake_answer"); return; }
	C19 &c = *cl.c19;
	if (c.broken) return;
	if (op.a.getb("stray")) {
		std::string pl = hexdec(op.a.gets("hex")).substr(0, 20), vk = op.a.gets("vkind", "stray");
		uint32_t mk = (uint32_t)mix64(plan.seed, op.uid);
		std::string b;
		if (vk == "rsv23") b = ws_frame(1 + (int)(mk & 1), pl, true, true, mk, (mk & 2) ? 2 : (mk & 4) ? 1 : 6, 0);                     // RSV2 / RSV3 are never negotiated
		else if (vk == "ctrl_rsv1") b = ws_frame((mk & 1) ? 9 : 10, pl, true, true, mk, 4, 0);                                           // control frames are never compressed
		else if (vk == "newstart") b = ws_frame(1, pl, false, true, mk, 0, 0) + ws_frame(1 + (int)(mk & 1), pl, false, true, mk + 1, 0, 0);   // a second start frame inside a fragmented message
		else if (vk == "whole_inside") b = ws_frame(2, pl, false, true, mk, 0, 0) + ws_frame(1, pl, true, true, mk + 1, 0, 0);           // a whole data message inside a fragmented message
		else if (vk == "cont_rsv") b = ws_frame(1, pl, false, true, mk, 0, 0) + ws_frame(0, pl, (mk & 1) != 0, true, mk + 1, (mk & 2) ? 1 : 2, 0); // RSV2 / RSV3 on a continuation frame (RSV1 there is tolerated by the daemon with permessage-deflate, and its own test suite demands that: no expectation)
		else b = ws_frame(0, pl, true, true, mk, 0, 0);
		c.stray_sent = true; probe("c19_stray_continuation_sent"); probe("c19_violation:" + vk);
		send_from_client(cl, b, op.a.get("seg"), (uint64_t)op.a.getd("gap", 0), op.uid);
		return;
	}
	std::string msg = hexdec(op.a.gets("hex"));
	int opcode = op.a.getb("bin") ? 2 : 1;
	bool comp = c.negotiated && !op.a.getb("plain");
	bool bfinal = comp && op.a.getb("bfinal");
	std::string payload = bfinal ? c19_deflate_bfinal(c, msg) : comp ? c19_deflate(c, msg) : msg;
	if (bfinal) probe("c19_bfinal_message_sent");
	if (comp) { probe("c19_compressed_message_sent"); if (payload.size() < msg.size()) probe("c19_payload_shrunk"); if (msg.empty()) probe("c19_empty_message"); }
	// a frame whose payload does not fit the daemon's read buffer ends the connection (the configured limit, not a defect): such a message is not sent
	size_t biggest = payload.size();
	{ const JV *fr0 = op.a.get("frags"); if (fr0 && fr0->t == JV::Arr && !fr0->a.empty()) { biggest = 0; size_t off0 = 0; for (size_t i0 = 0; i0 < fr0->a.size(); i0++) { size_t n0 = std::min((size_t)fr0->a[i0].d, payload.size() - off0); biggest = std::max(biggest, n0); off0 += n0; } biggest = std::max(biggest, payload.size() - off0); } }
	if ((int)biggest + 14 > g_variant.max_message) { probe("c19_skipped_frame_above_message_limit"); if (comp && c.c_nct == false) { /* the compressor state has advanced: keep both ends in step by sending nothing more compressed */ c.broken = true; cl.no_expect = true; } return; }
	std::string corrupt = op.a.gets("corrupt");
	Rng r(mix64(plan.seed, op.uid));
	if (!corrupt.empty() && comp) {
		size_t pos = payload.empty() ? 0 : (size_t)(op.a.getd("cpos", 0.5) * (double)payload.size()) % payload.size();
		if (corrupt == "flip" && !payload.empty()) payload[pos] = (char)(payload[pos] ^ (1 << r.below(8)));
		else if (corrupt == "trunc") payload.resize(pos);
		else { payload.clear(); size_t n = 1 + r.below(60); for (size_t i = 0; i < n; i++) payload += (char)r.below(256); }
		probe("fault:corrupt_compressed_stream:" + corrupt);
		// from here on this connection only has to stay memory-safe: what a damaged stream inflates to is not predictable
		cl.no_expect = true; c.broken = true;
	}
	// fragmentation
	std::vector<size_t> cuts; const JV *fr = op.a.get("frags");
	if (fr && fr->t == JV::Arr) for (auto &x : fr->a) cuts.push_back((size_t)x.d);
	std::string bytes; size_t off = 0; size_t i = 0; bool first = true;
	do {
		size_t n = i < cuts.size() ? std::min(cuts[i], payload.size() - off) : payload.size() - off;
		bool last = off + n >= payload.size() && i + 1 >= cuts.size();
		if (i >= cuts.size()) last = true;
		bytes += ws_frame(first ? opcode : 0, payload.substr(off, n), last, true, (uint32_t)mix64(plan.seed, op.uid * 131 + i), first && comp ? 4 : 0, 0);
		off += n; i++; first = false;
		if (last) break;
		if (i == 1 && op.a.getb("ping_inside")) {   // control frames may be injected in the middle of a fragmented message (RFC 6455 5.4)
			std::string pp = "ping-" + std::to_string(op.uid);
			bytes += ws_frame(9, pp, true, true, (uint32_t)mix64(plan.seed, op.uid * 977), 0, 0);
			c.pongs.push_back(pp); probe("c19_ping_inside_fragmented_message");
		}
	} while (true);
	if (i > 1) probe("c19_fragmented_message");
	if (op.a.getb("omit_last") && i > 1) {
		// the message never gets complete (the connection ends in the middle of it): nothing may be echoed, nothing may be left behind
		size_t lastlen = 0; { size_t pos = 0, idx = 0; while (pos < bytes.size()) { unsigned char b1 = (unsigned char)bytes[pos + 1]; size_t L = b1 & 0x7f, hl = 2; if (L == 126) { L = ((unsigned char)bytes[pos + 2] << 8) | (unsigned char)bytes[pos + 3]; hl = 4; } hl += 4; lastlen = hl + L; pos += lastlen; idx++; } }
		bytes.resize(bytes.size() - lastlen);
		probe("c19_incomplete_fragmented_message"); c.broken = true; cl.no_expect = true;
	}
	if (!c.broken) c.expect.emplace_back(opcode, msg);
	send_from_client(cl, bytes, op.a.get("seg"), (uint64_t)op.a.getd("gap", 0), op.uid);
}

void World::c19_on_frame(Client &cl, const Frame &f) {
	if (!cl.c19) return;
	C19 &c = *cl.c19;
	if (f.t == Frame::HTTP) return;
	if (f.masked) violation("C12", "server-frame-masked", "server sent a masked frame");
	if (!f.minimal) violation("C12", "non-minimal-length", "server frame length is not minimally encoded");
	if (f.wsop >= 8) {
		probe("ws_ctrl_from_daemon:" + std::to_string(f.wsop)); if (f.rsv) violation("C19", "compressed-control-frame", "server control frame with RSV bits set");
		if (f.wsop == 10 && !c.broken && !c.lenient && !cl.no_expect) {
			if (c.pongs.empty() || c.pongs.front() != f.raw) violation("C12", "wrong-pong", "connection c" + std::to_string(cl.idx) + ": pong with payload '" + ascii_safe(f.raw.substr(0, 40)) + "' answers no ping sent" + (c.pongs.empty() ? "" : " (expected '" + ascii_safe(c.pongs.front()) + "')"));
			else { c.pongs.pop_front(); probe("c19_pong_inside_fragmented_message"); }
		}
		if (f.wsop == 8 && c.stray_sent && !c.broken && !c.lenient && !cl.no_expect && c.expect.empty()) {
			int st = f.raw.size() >= 2 ? (((unsigned char)f.raw[0]) << 8) | (unsigned char)f.raw[1] : 0;
			if (st != 1002) violation("C12", "wrong-close-status", "a continuation frame that continues nothing was answered with close status " + std::to_string(st) + " instead of 1002");
			c.stray_closed = true; probe("c19_stray_continuation_refused");
		}
		return;
	}
	if (c.broken || cl.no_expect) return;
	if (f.rsv & ~4) violation("C19", "reserved-bits", "server data frame with RSV2/RSV3 set");
	if ((f.rsv & 4) && !c.negotiated) violation("C19", "compressed-without-negotiation", "server sent a compressed frame although permessage-deflate was not negotiated");
	// the server may fragment; collect
	if (f.wsop != 0) { if (c.in_frag) violation("C19", "bad-fragmentation", "new data frame inside a fragmented message"); c.frag.clear(); c.frag_op = f.wsop; c.frag_comp = (f.rsv & 4) != 0; c.in_frag = true; }
	else if (!c.in_frag) violation("C19", "bad-fragmentation", "continuation frame without a start");
	c.frag += f.raw;
	if (!f.fin) return;
	c.in_frag = false;
	std::string msg;
	if (c.frag_comp) {
		if (!c19_inflate(c, c.frag, msg)) violation("C19", "undecodable-message", "connection c" + std::to_string(cl.idx) + ": a compressed message from the server does not inflate (" + std::to_string(c.frag.size()) + " bytes: " + hexenc(c.frag.substr(0, 24)) + ")");
		probe("c19_compressed_message_received");
	} else msg = c.frag;
	if (c.lenient) { probe("c19_message_after_failed_allocation_decoded"); c.expect.clear(); return; }
	if (c.expect.empty() && c.stray_sent) violation("C12", "stray-continuation-processed", "connection c" + std::to_string(cl.idx) + ": a FIN continuation frame sent after a completed message (it continues nothing) was handed to the application, which echoed " + std::to_string(msg.size()) + " bytes; the connection had to be failed with status 1002");
	if (c.expect.empty()) violation("C19", "unsolicited-message", "connection c" + std::to_string(cl.idx) + " received a message (" + std::to_string(msg.size()) + " bytes) that echoes nothing it sent");
	auto want = c.expect.front(); c.expect.pop_front();
	if (want.first != c.frag_op || want.second != msg) {
		size_t k = 0; while (k < msg.size() && k < want.second.size() && msg[k] == want.second[k]) k++;
		violation("C19", "roundtrip-mismatch", "connection c" + std::to_string(cl.idx) + ": message of " + std::to_string(want.second.size()) + " bytes (opcode " + std::to_string(want.first) + ") came back as " + std::to_string(msg.size()) + " bytes (opcode " + std::to_string(c.frag_op) + "), first difference at byte " + std::to_string(k) +
			"; sent '" + ascii_safe(want.second.substr(k > 10 ? k - 10 : 0, 40)) + "', got '" + ascii_safe(msg.substr(k > 10 ? k - 10 : 0, 40)) + "'");
	}
	c.echoed++; probe("c19_roundtrip_ok");
}

void World::c19_quiescent() {
	for (auto &cl : clients) {
		if (!cl.c19 || cl.no_expect || cl.c19->broken || cl.c19->lenient) continue;
		if (!cl.accepted || cl.client_closed) continue;
		if (!q.empty()) continue;
		if (cl.c19->stray_sent && cl.c19->expect.empty() && !cl.c19->stray_closed && !cl.daemon_closed && cl.space < 0 && cl.chunks_queued == 0)
			violation("C12", "stray-continuation-not-refused", "connection c" + std::to_string(cl.idx) + ": a FIN continuation frame that continues nothing was neither answered with a close frame nor was the connection released");
		if (cl.c19->stray_sent) continue;
		if (!cl.daemon_closed && !cl.c19->pongs.empty() && cl.space < 0 && cl.chunks_queued == 0)
			violation("C12", "ping-not-answered", "connection c" + std::to_string(cl.idx) + ": a ping sent between two fragments of a message was not answered with a pong although the event loop is idle");
		if (cl.daemon_closed && !cl.c19->expect.empty())
			violation("C19", "connection-dropped", "connection c" + std::to_string(cl.idx) + " was closed by the server although it only sent valid messages (" + std::to_string(cl.c19->expect.size()) + " still unanswered)");
		if (!cl.daemon_closed && !cl.c19->expect.empty() && cl.space < 0 && cl.chunks_queued == 0)
			violation("C19", "message-not-echoed", "connection c" + std::to_string(cl.idx) + ": " + std::to_string(cl.c19->expect.size()) + " messages were not echoed although the event loop is idle");
	}
}
