// State oracle for runs with injected allocation failures.
//
// When an allocation is made to fail the outcome of the requests the daemon is handling at that moment is not predictable
// (world_core.cpp falls back to the response ledger). What stays decidable is the *element image*: every request of the
// interrupted event was either carried out or it was not (C04: a refused request leaves everything as it was; C15: no corruption).
// So the reference model is forked at the start of the interrupted event: one alternative per subset of its requests. All later
// input is applied to every alternative; every `get` that is answered with a result must equal the image of at least one
// alternative (the others are discarded); a final get-all by a fresh connection is added before the plan's connections end.
#include "wimpl.h"
#include <cstdio>
#include <algorithm>
#include <cstring>

KFd *find_listener(const std::string &tr, const std::string &ip);

// structural hash: numbers as doubles, object members in any order
static uint64_t jv_hash(const JV &v) {
	switch (v.t) {
	case JV::Null: return 0x9e3779b97f4a7c15ULL;
	case JV::Bool: return v.b ? 0x51ed27f1ULL : 0x2545f491ULL;
	case JV::Num: { double d = v.d == 0 ? 0.0 : v.d; uint64_t b; memcpy(&b, &d, 8); return mix64(b, 0x4e554d); }
	case JV::Str: { Hasher h; h.str(v.s); return mix64(h.h, 0x535452); }
	case JV::Arr: { uint64_t h = 0x415252; for (auto &x : v.a) h = mix64(h, jv_hash(x)); return h; }
	case JV::Obj: { uint64_t h = 0; for (auto &kv : v.o) { Hasher k; k.str(kv.first); h += mix64(k.h, jv_hash(kv.second)); } return mix64(h, 0x4f424a); }
	}
	return 0;
}

namespace {
struct ShadowHost : ModelHost {
	World *w = nullptr;
	World::Cand *cur = nullptr;
	void expect(int c, const Exp &e) override {
		if (cur && e.kind == Exp::RESP && (e.id.t == JV::Str || e.id.t == JV::Num) && (e.why == "authenticate ok" || e.why == "failed authentication")) {
			char b[48]; if (e.id.t == JV::Num) snprintf(b, sizeof b, "n%.17g", e.id.d);
			cur->auth[std::to_string(c) + "|" + (e.id.t == JV::Str ? "s" + e.id.s : std::string(b))] = e.why == "authenticate ok" ? 1 : 0;
		}
		if (!cur || e.kind != Exp::NOTIFY) return;
		if (cur->entitled.size() > 600) { cur->entitled_overflow = true; return; }
		World::Entitled x; x.c = c; x.fetchid = e.fetchid; x.event = e.event; x.path = e.path; x.check_value = e.check_value; x.vhash = e.check_value ? jv_hash(e.value) : 0;
		cur->entitled.push_back(x);
	}
	uint64_t vnow() override { return w ? w->now : 0; }
	void probe(const std::string &) override {}
	void violation(const std::string &, const std::string &, const std::string &) override {}
	void harness_error(const std::string &what) override { if (w) w->shadow_give_up("reference model: " + what); }
	bool observable(int) override { return true; }
};
ShadowHost g_shadow_host;

std::string idkey2(const JV &id) {
	if (id.t == JV::Str) return "s" + id.s;
	char b[40]; snprintf(b, sizeof b, "n%.17g", id.d); return b;
}

bool get_set_equal2(const JV &a, const JV &b) {
	if (a.t != JV::Arr || b.t != JV::Arr || a.a.size() != b.a.size()) return false;
	std::vector<bool> used(b.a.size(), false);
	for (auto &x : a.a) {
		bool found = false;
		for (size_t i = 0; i < b.a.size(); i++) if (!used[i] && json_equal(x, b.a[i])) { used[i] = true; found = true; break; }
		if (!found) return false;
	}
	return true;
}
const size_t MAX_ALTERNATIVES = 24;
}

void World::shadow_give_up(const std::string &why) {
	if (shadow_undecidable) return;
	shadow_undecidable = true; shadow_why = why;
	probe("shadow_undecidable"); probe("shadow_undecidable:" + why.substr(0, 48));
	dbg("shadow: given up: %s", why.c_str());
	cands.clear(); snap_cands.clear(); since_snap.clear(); shadow_gets.clear(); snap_gets.clear(); shadow_unexplained.clear();
}

void World::shadow_mark() {
	if (!shadow_enabled || shadow_undecidable) return;
	if (snap_version == model_version && since_snap.empty()) return;   // nothing happened since the last snapshot
	snap_version = model_version;
	since_snap.clear();
	if (shadow_active) { snap_cands = cands; snap_gets = shadow_gets; return; }
	if (mode != "exact") return;
	snap_cands.clear(); snap_gets.clear();
	Cand c; c.m = model; snap_cands.push_back(c);
}

void World::shadow_log(const Input &in) {
	model_version++;
	if (!shadow_enabled || shadow_undecidable) return;
	since_snap.push_back(in);
	if (shadow_active) shadow_apply(cands, in, false);
}

static void remap_gets(std::map<std::pair<int, std::string>, World::ShadowGet> &gets, const std::vector<int> &parent) {
	for (auto &kv : gets) {
		World::ShadowGet n; n.ambiguous = kv.second.ambiguous;
		for (int p : parent) { n.rc.push_back(p >= 0 && p < (int)kv.second.rc.size() ? kv.second.rc[p] : -1); n.sets.push_back(p >= 0 && p < (int)kv.second.sets.size() ? kv.second.sets[p] : JV()); }
		kv.second = n;
	}
}

void World::shadow_apply(std::vector<Cand> &cs, const Input &in, bool fork) {
	if (shadow_undecidable) return;
	g_shadow_host.w = this;
	for (auto &c : cs) c.m.host = &g_shadow_host;
	Client *cl = in.c >= 0 && in.c < (int)clients.size() ? &clients[in.c] : nullptr;
	auto gone = [&]() { for (auto &c : cs) if (c.alive) { g_shadow_host.cur = &c; c.m.on_peer_gone(in.c, false); } g_shadow_host.cur = nullptr; };
	std::vector<std::string> members; bool drop_after = false;
	switch (in.t) {
	case Input::CONN: for (auto &c : cs) if (c.alive) c.m.on_connect(in.c, in.text, in.fd != 0); return;
	case Input::DROP: case Input::GONE: gone(); return;
	case Input::TIMER: case Input::HS: return;
	case Input::WSFRAME:
		if (cl && cl->no_expect) return;
		if (in.wscls == W_PING || in.wscls == W_PONG) return;
		if (in.wscls != W_TEXT) { gone(); return; }
		members.push_back(in.wf.payload);
		break;
	case Input::MSG:
		if (cl && cl->no_expect) return;
		members.push_back(in.text);
		break;
	}
	// a batch behaves like its members sent one after the other
	{
		JV j; const std::string whole = members[0];
		if (!whole.empty() && whole[0] == '[' && json_parse(whole, j) && j.t == JV::Arr) {
			members.clear();
			for (auto &m : j.a) { if (m.t != JV::Obj) { drop_after = true; break; } members.push_back(m.dump()); }
		}
	}
	for (auto &text : members) {
		JV j;
		if (json_parse(text, j) && j.t == JV::Obj && j.gets("method") == "get") {
			const JV *id = j.get("id");
			if (id && (id->t == JV::Str || id->t == JV::Num)) {
				static const JV empty = JV::obj();
				const JV *params = j.get("params");
				ShadowGet g;
				for (auto &c : cs) {
					JV set; int rc = -1;
					if (c.alive) { auto pi = c.m.peers.find(in.c); if (pi != c.m.peers.end() && pi->second.alive) rc = params ? c.m.get_image(in.c, params->t == JV::Obj ? *params : empty, set) : 1; }
					g.rc.push_back(rc); g.sets.push_back(set);
				}
				auto key = std::make_pair(in.c, idkey2(*id));
				auto it = shadow_gets.find(key);
				if (it != shadow_gets.end()) it->second.ambiguous = true; else shadow_gets[key] = g;
			}
		}
		if (!fork && json_parse(text, j) && j.t == JV::Obj && j.gets("method") == "authenticate") {
			const JV *id = j.get("id");
			if (id && (id->t == JV::Str || id->t == JV::Num)) { std::string k = std::to_string(in.c) + "|" + idkey2(*id); if (shadow_auth_seen.count(k)) shadow_auth_seen[k] = (uint64_t)-1; else shadow_auth_seen[k] = faults_fired; }
		}
		if (!fork) { for (auto &c : cs) if (c.alive) { g_shadow_host.cur = &c; c.m.on_message(in.c, text); } g_shadow_host.cur = nullptr; }
		else {
			std::vector<Cand> next; std::vector<int> parent; std::map<std::string, size_t> seen;
			for (size_t i = 0; i < cs.size(); i++) {
				if (!cs[i].alive) continue;
				for (int variant = 0; variant < 2; variant++) {
					Cand n = cs[i]; n.parent = (int)i;
					if (variant == 1) { g_shadow_host.cur = &n; n.m.on_message(in.c, text); g_shadow_host.cur = nullptr; }
					std::string key = n.m.image_key();
					for (auto &kv : shadow_gets) if (i < kv.second.rc.size()) key += "|" + std::to_string(kv.second.rc[i]) + kv.second.sets[i].dump();
					auto sit = seen.find(key);
					if (sit != seen.end()) {
						// same state reached another way: keep one, with everything either of them would have sent
						Cand &keep = next[sit->second];
						if (keep.entitled.size() + n.entitled.size() < 1200) keep.entitled.insert(keep.entitled.end(), n.entitled.begin(), n.entitled.end()); else keep.entitled_overflow = true;
						continue;
					}
					seen[key] = next.size();
					next.push_back(n); parent.push_back((int)i);
				}
			}
			if (next.size() > MAX_ALTERNATIVES) { shadow_give_up("more than " + std::to_string(MAX_ALTERNATIVES) + " alternatives"); return; }
			remap_gets(shadow_gets, parent);
			cs.swap(next);
		}
		if (shadow_undecidable) return;
	}
	if (drop_after) gone();
	for (auto &c : cs) if (c.alive) for (auto &d : c.m.decisions) if (d.state == 0) { shadow_give_up("a request whose outcome depends on a capacity limit: " + d.what); return; }
}

void World::shadow_fork() {
	if (!shadow_enabled || shadow_undecidable) return;
	if (snap_cands.empty()) { shadow_give_up("no snapshot of the reference model"); return; }
	// a connection whose client has gone is only waiting to be released; one that is alive but cannot be served may have its own requests aborted half way
	for (auto &cl : clients) if (cl.faulty && !cl.client_closed && !cl.daemon_closed) { shadow_give_up("impaired connections take part"); return; }
	for (auto &c : snap_cands) for (auto &d : c.m.decisions) if (d.state == 0) { shadow_give_up("undecided request at the start of the interrupted event: " + d.what); return; }
	std::vector<Cand> cs = snap_cands;
	shadow_gets = snap_gets;
	std::vector<Input> ins = since_snap;   // shadow_apply may give up and clear the members
	for (auto &in : ins) { shadow_apply(cs, in, true); if (shadow_undecidable) return; }
	cands.swap(cs);
	shadow_active = true;
	size_t n = 0; for (auto &c : cands) if (c.alive) n++;
	probe("shadow_forked"); probe("shadow_alternatives:" + std::to_string(n > 8 ? 9 : n));
	dbg("shadow: %zu alternatives after the failed allocation (%zu inputs in the interrupted event, %zu alternatives at its start)", n, ins.size(), snap_cands.size());
	if (debug) for (size_t i = 0; i < cands.size(); i++) dbg("shadow:   alternative %zu alive=%d key=%.300s", i, cands[i].alive, cands[i].m.image_key().c_str());
}

void World::shadow_check_get(Client &cl, const Frame &f) {
	if (!shadow_active || shadow_undecidable) return;
	if (f.t != Frame::JSON || f.j.t != JV::Obj) return;
	const JV *id = f.j.get("id");
	if (!id || (id->t != JV::Str && id->t != JV::Num)) return;
	auto it = shadow_gets.find(std::make_pair(cl.idx, idkey2(*id)));
	if (it == shadow_gets.end()) return;
	ShadowGet g = it->second;
	shadow_gets.erase(it);
	snap_gets.erase(std::make_pair(cl.idx, idkey2(*id)));
	if (g.ambiguous) { probe("shadow_get_ambiguous"); return; }
	const JV *r = f.j.get("result");
	if (!r || f.j.has("error")) { probe("shadow_get_refused"); return; }
	size_t alive_before = 0, alive_after = 0; std::string alts;
	for (size_t i = 0; i < cands.size(); i++) {
		if (!cands[i].alive) continue;
		alive_before++;
		bool ok = i < g.rc.size() && (g.rc[i] == 0 || g.rc[i] == 2) && get_set_equal2(*r, g.sets[i]);
		if (ok) alive_after++;
		else { if (alts.size() < 1500) alts += "\n  alternative " + std::to_string(i) + ": " + (i < g.rc.size() && (g.rc[i] == 0 || g.rc[i] == 2) ? g.sets[i].dump() : std::string("<refusal>")); }
	}
	shadow_checks++; probe("shadow_get_checked"); model_version++;
	if (alive_before == 0) return;
	if (alive_after == 0) {
		violation(plan.hdr.gets("shadowprop", "C04"), "state-not-explained-after-failed-allocation",
			"after a failed allocation (injected, or refused by the configured heap cap) connection c" + std::to_string(cl.idx) + " got the result " + r->dump().substr(0, 1500) + " for get id " + id->dump() +
			"; neither carrying out nor skipping the requests that were in progress when the allocation failed explains it. The reference model allows:" + alts);
		return;
	}
	for (size_t i = 0; i < cands.size(); i++) if (cands[i].alive) {
		bool ok = i < g.rc.size() && (g.rc[i] == 0 || g.rc[i] == 2) && get_set_equal2(*r, g.sets[i]);
		if (!ok) cands[i].alive = false;
	}
	if (alive_after < alive_before) probe("shadow_alternative_discarded");
}

// Credentials after a failed allocation: a password change that was in progress was either carried out or not. Every later authenticate request
// (consumed and answered without a further failure in between) must be answered the way at least one alternative of the reference model answers it.
void World::shadow_check_auth(Client &cl, const Frame &f) {
	if (!shadow_active || shadow_undecidable) return;
	if (f.t != Frame::JSON || f.j.t != JV::Obj) return;
	const JV *id = f.j.get("id");
	if (!id || (id->t != JV::Str && id->t != JV::Num)) return;
	std::string k = std::to_string(cl.idx) + "|" + idkey2(*id);
	auto it = shadow_auth_seen.find(k);
	if (it == shadow_auth_seen.end()) return;
	uint64_t at = it->second; shadow_auth_seen.erase(it);
	if (at == (uint64_t)-1) return;                          // the id was used twice
	bool ok = f.j.has("result") && !f.j.has("error");
	if (at != faults_fired) return;                          // a further allocation failed since the request was consumed: its own outcome is open
	size_t before = 0, after = 0;
	for (auto &cd : cands) { if (!cd.alive) continue; before++; auto a = cd.auth.find(k); if (a == cd.auth.end() || a->second == (ok ? 1 : 0)) after++; }
	probe("shadow_auth_checked");
	if (!before) return;
	if (!after) {
		violation(plan.hdr.gets("shadowprop", "C04"), "credentials-not-explained-after-failed-allocation",
			"after a failed allocation connection c" + std::to_string(cl.idx) + " got " + frame_text(f).substr(0, 300) + " for its authenticate request; neither carrying out nor skipping the password change (or authentication) "
			"that was in progress when the allocation failed explains that answer together with the earlier ones: the stored credentials are neither the old nor the new ones");
		return;
	}
	for (auto &cd : cands) { if (!cd.alive) continue; auto a = cd.auth.find(k); if (a != cd.auth.end() && a->second != (ok ? 1 : 0)) cd.alive = false; }
	if (after < before) probe("shadow_alternative_discarded");
}

bool World::shadow_send_probe() {
	if (!shadow_active || shadow_undecidable || shadow_probe_sent || sigterm_sent) return false;
	shadow_probe_sent = true;
	for (auto &cl : clients) if (cl.no_expect && !cl.is_canary && cl.accepted && !cl.daemon_closed && cl.msgs_in > 0) { probe("shadow_probe_skipped"); return false; }
	KFd *l = find_listener("raw", "127.0.0.1");
	if (!l) return false;
	Client c; c.idx = (int)clients.size(); c.transport = "raw"; c.origin_ip = "127.0.0.1"; c.origin_local = true;
	c.in.maxmsg = g_variant.max_message;
	clients.push_back(c);
	Client &cc = clients.back();
	cc.connected = true; l->backlog.push_back(cc.idx); g_kernel.mark_pending(*l);
	deliver_bytes(cc, raw_frame("{\"id\":\"shadow-probe\",\"method\":\"get\",\"params\":{}}"));
	probe("shadow_probe_sent");
	return true;
}

// ------------------------------------------------------------------ notifications after a failed allocation
// No completeness is demanded (a notification may be lost with the failed allocation), but every notification a peer does receive must be
// one that at least one alternative of the reference model would send to it: for a fetch it holds, a path its rule selects and its user may see,
// with the value the element has.
bool World::shadow_explain_notify(int c, const Frame &f) {
	const JV *m = f.j.get("method"), *p = f.j.get("params");
	if (!m || !p) return true;
	std::string path = p->gets("path", "\x01"), ev = p->gets("event");
	const JV *v = p->get("value");
	bool any = false, overflow = false;
	for (auto &cd : cands) {
		if (!cd.alive) continue;
		if (cd.entitled_overflow) overflow = true;
		for (size_t i = 0; i < cd.entitled.size(); i++) {
			Entitled &e = cd.entitled[i];
			if (e.c != c || e.event != ev || e.path != path || !id_equal(e.fetchid, *m)) continue;
			if (e.check_value && (!v || jv_hash(*v) != e.vhash)) continue;
			cd.entitled.erase(cd.entitled.begin() + (long)i); model_version++;
			any = true; break;
		}
	}
	if (!any && ev == "remove") {
		// an add that is aborted half way tells every fetch registered on the element so far that it is gone, also one whose own "add" could not be
		// built: a remove for a path the fetch selects is harmless and accepted
		for (auto &cd : cands) {
			if (!cd.alive) continue;
			auto pi = cd.m.peers.find(c);
			if (pi == cd.m.peers.end() || !pi->second.alive) continue;
			for (auto &fe : pi->second.fetches) if (id_equal(fe.id, *m) && fe.rule.matches(path)) { any = true; probe("shadow_remove_for_unreported_path"); }
		}
	}
	return any || overflow;
}

void World::shadow_check_notify(Client &cl, const Frame &f) {
	if (!shadow_active || shadow_undecidable) return;
	if (f.t != Frame::JSON || f.j.t != JV::Obj || !f.j.has("method") || f.j.has("id")) return;
	size_t alive = 0; for (auto &cd : cands) if (cd.alive) alive++;
	if (!alive) return;
	for (;;) {
		if (shadow_explain_notify(cl.idx, f)) { probe("shadow_notify_explained"); return; }
		if (!feed_one_pending() && !feed_next_batch_error()) break;
	}
	if (debug) for (size_t i = 0; i < cands.size(); i++) { if (!cands[i].alive) continue; std::string d; auto pi = cands[i].m.peers.find(cl.idx); if (pi != cands[i].m.peers.end()) for (auto &fe : pi->second.fetches) d += fe.id.dump() + (fe.rule.all ? "(all) " : "(rule) "); dbg("shadow: alternative %zu: peer c%d alive=%d fetches: %s; %zu entitlements, %zu elements", i, cl.idx, pi != cands[i].m.peers.end() && pi->second.alive, d.c_str(), cands[i].entitled.size(), cands[i].m.elems.size()); }
	// the end of a connection is observed after its consequences were written: judged when the daemon returns to its event loop
	PendingNotify pn; pn.c = cl.idx; pn.f = f; shadow_unexplained.push_back(pn);
}

void World::shadow_settle_unexplained(bool final) {
	if (shadow_unexplained.empty()) return;
	if (!shadow_active || shadow_undecidable) { shadow_unexplained.clear(); return; }
	std::vector<PendingNotify> left;
	for (auto &pn : shadow_unexplained) if (!shadow_explain_notify(pn.c, pn.f)) left.push_back(pn);
	shadow_unexplained.swap(left);
	if (!final || shadow_unexplained.empty()) return;
	PendingNotify pn = shadow_unexplained.front(); shadow_unexplained.clear();
	violation(plan.hdr.gets("shadowprop", "C04"), "notification-not-explained-after-failed-allocation",
		"after a failed allocation connection c" + std::to_string(pn.c) + " received " + frame_text(pn.f) + "; in no alternative of the reference model (requests interrupted by the failure carried out or not) does this peer hold a fetch that entitles it to this notification with this value");
}
