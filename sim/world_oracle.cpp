// Oracles: expectation matching against the reference model, ledger mode, replicas, accounting.
#include "wimpl.h"
#include <cstring>
#include <cstdio>
#include <unistd.h>
#include <sys/epoll.h>
#include <algorithm>
#include <cmath>

extern "C" size_t cjet_get_alloc_size(void) __attribute__((weak));
extern "C" int get_number_of_peers(void) __attribute__((weak));

static std::string idkey(const JV &id);

void World::violation(const std::string &prop_in, const std::string &rule_in, const std::string &detail) {
	if (res.violated || done) return;
	std::string prop = prop_in, rule = rule_in;
	// an open known finding whose witness still fails (bin/check passes its rule here): counted, not reported again by every run that meets it
	{ const JV *qr = plan.hdr.get("quiet_rules"); if (qr && qr->t == JV::Arr) for (auto &x : qr->a) if (x.t == JV::Str && x.s == prop + "/" + rule) { probe("known_finding_met:" + x.s); return; } }
	// containment profile: what the reference model expects for healthy peers *is* the property; keep the originating rule visible
	std::string rl = plan.hdr.gets("relabel");
	if (rl.empty() && faults_fired > 0) rl = plan.hdr.gets("relabel_after_fault");
	if (rule_in == "state-not-explained-after-failed-allocation") rl.clear();   // already carries the property the run is made for
	if (!rl.empty() && (prop == "C01" || prop == "C02" || prop == "C03" || prop == "C04" || prop == "C05" || prop == "C14" || (rl == "C20" && prop == "C08") || (rl == "C15" && (prop == "C07" || prop == "C10" || prop == "C12" || prop == "C13" || prop == "C16" || prop == "C08" || prop == "C11")))) { rule = prop + ":" + rule; prop = rl; }
	res.violated = true; res.v.prop = prop; res.v.rule = rule; res.v.detail = detail;
	finish(0);
	bail();
}

void World::harness_error(const std::string &what) {
	if (done) return;
	res.harness_error = true; res.harness_what = what;
	finish(0);
	bail();
}

void World::expect(int c, const Exp &e) {
	if (c < 0 || c >= (int)clients.size()) return;
	Client &cl = clients[c];
	if (cl.no_expect || cl.faulty || cl.daemon_closed) return;
	if (cl.closing && e.kind != Exp::CLOSE) return;
	dbg("expect c%d: %s", c, e.describe().c_str());
	cl.expq.push_back(e);
}

// ------------------------------------------------------------------ feeding the model in the daemon's processing order
void World::feed_input(const Input &in) {
	dbg("feed input t=%d c=%d fd=%d %s %.100s", in.t, in.c, in.fd, in.why.c_str(), in.text.c_str());
	trace.tag("in"); trace.u64(in.t); trace.u64((uint64_t)in.c); trace.str(in.text);
	shadow_log(in);
	if (mode == "exact") resolve_silent_decisions();
	if (mode == "exact" && model.decision_pending()) {
		// the previous request's outcome was never signalled
		violation("C02", "missing-response", "no answer was produced for a request whose outcome the daemon had to signal before processing further input");
	}
	Client *cl = in.c >= 0 && in.c < (int)clients.size() ? &clients[in.c] : nullptr;
	switch (in.t) {
	case Input::MSG:
		res.st.msgs_consumed++;
		if (cl) cl->msgs_in++;
		last_fed_client = in.c;
		if (mode == "exact") { if (cl && !cl->no_expect) { ledger_request(*cl, in.text); if (!model.on_message(in.c, in.text)) cl->closing = true; } }
		else if (mode == "ledger" && cl) ledger_request(*cl, in.text);
		break;
	case Input::WSFRAME:
		if (mode == "exact") {
			if (cl && cl->no_expect) break;
			probe("ws_in_class:" + std::to_string(in.wscls));
			bool can_see = cl && !cl->client_closed;
			switch (in.wscls) {
			case W_TEXT: res.st.msgs_consumed++; if (cl) ledger_request(*cl, in.wf.payload); model.on_message(in.c, in.wf.payload); break;
			case W_PING: { probe("ws_ping"); if (wsstrict) { Exp e; e.kind = Exp::PONG; e.path = in.wf.payload; e.prop = "C12"; e.group = ++model.group_ctr; e.why = "pong for ping"; expect(in.c, e); } break; }
			case W_PONG: probe("ws_pong_in"); break;
			case W_CLOSE_OK: probe("ws_close_valid"); model.on_peer_gone(in.c, true, 0, wsstrict && can_see, wsstrict ? "C12" : "C05"); if (cl) cl->closing = !wsstrict; break;
			case W_1002: probe("ws_violation_1002"); model.on_peer_gone(in.c, true, wsstrict ? 1002 : 0, wsstrict && can_see, wsstrict ? "C12" : "C05"); if (cl) cl->closing = !wsstrict; break;
			case W_1007: probe("ws_violation_1007"); model.on_peer_gone(in.c, true, wsstrict ? 1007 : 0, wsstrict && can_see, wsstrict ? "C12" : "C05"); if (cl) cl->closing = !wsstrict; break;
			case W_1002_OR_1007: probe("ws_violation_1002_or_1007"); model.on_peer_gone(in.c, true, wsstrict ? 10027 : 0, wsstrict && can_see, wsstrict ? "C12" : "C05"); if (cl) cl->closing = !wsstrict; break;
			case W_FRAG: case W_BINARY: default:
				// a fragmented (or binary) data message is either processed or refused with a close frame; this daemon refuses, which is what is modelled.
				// If it does not, the run cannot be judged further (reassembly is not modelled): flagged at the next quiescent point.
				probe(in.wscls == W_FRAG ? "ws_fragment" : "ws_binary");
				model.on_peer_gone(in.c, true, 0, wsstrict && can_see, wsstrict ? "C12" : "C05"); if (cl) { cl->closing = !wsstrict; cl->policy.put("may_process_frag", JV::boolean(true)); }
				break;
			}
		} else if (mode == "ledger" && cl) {
			if (in.wscls == W_TEXT) { res.st.msgs_consumed++; ledger_request(*cl, in.wf.payload); }
			else cl->no_expect = true; // protocol-level traffic: only survival is checked
		}
		break;
	case Input::HS:
		if (cl) cl->hs_sent = true;
		break;
	case Input::DROP:
		probe("drop:" + in.why);
		if (cl) cl->policy.put("must_be_dropped", JV::str(in.why));
		if (mode == "exact" && cl && !cl->no_expect) model.on_peer_gone(in.c, true);
		if (cl) { cl->closing = true; }
		break;
	case Input::GONE:
		if (cl && cl->closing && mode != "exact") break;
		if (mode == "exact" && cl && !cl->no_expect) model.on_peer_gone(in.c, true);
		if (cl) cl->closing = true;
		break;
	case Input::TIMER:
		if (mode == "exact") model.on_timer_fired(in.fd);
		break;
	}
}

bool World::feed_one_pending() {
	if (pend.empty()) return false;
	Input in = pend.front(); pend.pop_front();
	feed_input(in);
	return true;
}

void World::flush_pending() { while (feed_one_pending()) {} }

void World::feed_batch_errors_before(int fd) {
	// error/hang-up entries of the current batch that were handled without a read are processed, in batch order, before the entry for `fd`.
	// An entry that reports data together with a hang-up or an error may be read first (the end then shows in the result of read()) or be
	// handled as an error at once: the daemon's own calls decide, the harness does not assume either.
	if (fd >= 0) { bool in_batch = false; for (auto &b : batch) if (b.fd == fd) in_batch = true; if (!in_batch) return; }
	for (auto &b : batch) {
		if (b.fd == fd) { b.fed = true; break; }
		if (b.fed) continue;
		b.fed = true;
		if (!(b.mask & (EPOLLERR | EPOLLHUP))) continue;
		KFd *k = g_kernel.get(b.fd);
		if (!k || k->kind != FD_STREAM) continue;
		Client *cl = client_of(*k);
		if (!cl || cl->closing) continue;
		flush_pending();
		Input in; in.t = Input::GONE; in.c = cl->idx; in.why = "error/hang-up event"; feed_input(in);
		probe("gone_by_error_event");
	}
}

bool World::feed_next_batch_error() {
	// the daemon handles batch entries in order; an error/hang-up entry makes no read, so its start is inferred
	for (auto &b : batch) {
		if (b.fed) continue;
		{
			KFd *kk = g_kernel.get(b.fd);
			if ((b.mask & EPOLLIN) && kk && kk->open && kk->in_epoll) return false; // that entry has not been started yet (readable entries are read, with or without a hang-up bit)
		}
		if (!(b.mask & (EPOLLERR | EPOLLHUP))) { b.fed = true; continue; }               // writable-only entries need no system call
		b.fed = true;
		KFd *k = g_kernel.get(b.fd);
		if (!k || k->kind != FD_STREAM) continue;
		Client *cl = client_of(*k);
		if (!cl || cl->closing) continue;
		Input in; in.t = Input::GONE; in.c = cl->idx; in.why = "error/hang-up event"; feed_input(in);
		probe("gone_by_error_event");
		return true;
	}
	return false;
}

void World::turn_end() {
	cur_read_client = -1;
	// the shortage that made accept() fail is over
	lasting_accept_failures_turn = 0;
	for (auto &kf : g_kernel.fds) if (kf.kind == FD_LISTEN && kf.lasting_accept_failure) { kf.lasting_accept_failure = false; if (!kf.backlog.empty() && kf.backlog.front() < 0) kf.backlog.pop_front(); }
	feed_batch_errors_before(-1);
	flush_pending();
	batch.clear();
	if (presumed_drop >= 0) {
		Client &x = clients[presumed_drop];
		if (!x.daemon_closed) violation("C11", "frames-as-if-peer-dropped", "healthy peers received frames that only the end of faulty peer c" + std::to_string(x.idx) + " explains, but the daemon did not release that connection");
		presumed_drop = -1;
	}
	last_fed_client = -1;
	for (auto &cl : clients) if (cl.msg_done_turn) { cl.msg_done_turn = false; if (cl.accepted && !cl.daemon_closed && (cl.rx_off < cl.rx.size() || cl.eof || cl.hup || cl.rx_err)) { KFd *kk = g_kernel.get(cl.fd); if (kk) g_kernel.mark_pending(*kk); } }
	c10_turn_end();
	shadow_settle_unexplained(true);
	for (auto &cl : clients) cl.write_attempts_turn = 0;
	if (mode == "exact") {
		resolve_silent_decisions();
		if (model.decision_pending()) violation("C02", "missing-response", "the daemon returned to its event loop without signalling the outcome of a request");
		check_queues_empty("when the daemon returned to its event loop");
	}
	if (cjet_get_alloc_size) {
		size_t a = cjet_get_alloc_size();
		if (a > (size_t)g_variant.heap_kb * 1024) violation("C07", "heap-cap-exceeded", "accounted heap " + std::to_string(a) + " exceeds the configured cap");
	}
}

void World::check_queues_empty(const char *when) {
	for (auto &cl : clients) {
		if (cl.no_expect || cl.faulty) { cl.expq.clear(); continue; }
		if (cl.space >= 0 || cl.wcap) continue; // limited send path: frames may legitimately still be buffered
		for (auto &e : cl.expq) {
			if (e.optional) continue;
			if (e.kind == Exp::CLOSE && cl.daemon_closed) continue;
			std::string rule = e.kind == Exp::RESP ? "missing-response" : e.kind == Exp::NOTIFY ? "missing-notification" : e.kind == Exp::ROUTED ? "routed-request-not-delivered" : "connection-not-released";
			violation(e.prop, rule, "connection c" + std::to_string(cl.idx) + " (" + cl.transport + ") did not receive " + e.describe() + " " + when);
		}
	}
}

// ------------------------------------------------------------------ frame matching
static int classify(const Frame &f) {
	// 0 response, 1 notification, 2 routed request, -1 malformed
	if (f.t != Frame::JSON || f.j.t != JV::Obj) return -1;
	bool has_id = f.j.has("id"), has_m = f.j.has("method"), has_r = f.j.has("result"), has_e = f.j.has("error");
	if (has_m && has_id) return 2;
	if (has_m) return 1;
	if (has_id && (has_r || has_e)) return 0;
	return -1;
}

static bool get_set_equal(const JV &a, const JV &b) {
	if (a.t != JV::Arr || b.t != JV::Arr || a.a.size() != b.a.size()) return false;
	std::vector<bool> used(b.a.size(), false);
	for (auto &x : a.a) {
		bool found = false;
		for (size_t i = 0; i < b.a.size(); i++) if (!used[i] && json_equal(x, b.a[i])) { used[i] = true; found = true; break; }
		if (!found) return false;
	}
	return true;
}

static bool content_match(const Exp &e, const Frame &f, int cls, std::string &near) {
	const JV &j = f.j;
	if (e.kind == Exp::PONG) {
		if (f.t != Frame::WS_CTRL || f.wsop != 10) return false;
		if (f.raw != e.path) { near = "pong payload " + hexenc(f.raw) + " differs from the ping payload " + hexenc(e.path); return false; }
		return true;
	}
	if (e.kind == Exp::RESP) {
		if (cls != 0) return false;
		const JV *id = j.get("id");
		if (!id || !id_equal(*id, e.id)) return false;
		const JV *r = j.get("result"), *er = j.get("error");
		bool ok = false;
		switch (e.rk) {
		case Exp::R_TRUE: ok = r && !er && r->t == JV::Bool && r->b; break;
		case Exp::R_ERR_DAEMON: ok = er && !r && er->t == JV::Obj; break;
		case Exp::R_RESULT_EQ: ok = r && !er && json_equal(*r, e.payload); break;
		case Exp::R_ERROR_EQ: ok = er && !r && json_equal(*er, e.payload); break;
		case Exp::R_EITHER: ok = (r != nullptr) != (er != nullptr); break;
		case Exp::R_ANYRESULT: ok = r && !er; break;
		case Exp::R_GETSET: ok = r && !er && get_set_equal(*r, e.payload); break;
		case Exp::R_OK_OR_ERR: ok = (r && !er && r->t == JV::Bool && r->b) || (er && !r && er->t == JV::Obj); break;
		case Exp::R_ERR_OR_GETSET: ok = (er && !r && er->t == JV::Obj) || (r && !er && get_set_equal(*r, e.payload)); break;
		}
		if (!ok) near = "response for id " + id->dump() + " has the wrong outcome/payload: expected " + e.describe();
		return ok;
	}
	if (e.kind == Exp::NOTIFY) {
		if (cls != 1) return false;
		const JV *m = j.get("method"), *p = j.get("params");
		if (!m || !p || !id_equal(*m, e.fetchid)) return false;
		if (p->gets("path", "\x01") != e.path) return false;
		if (p->gets("event") != e.event) { near = "notification for " + e.path + " has event '" + p->gets("event") + "', expected " + e.describe(); return false; }
		if (e.check_value) {
			const JV *v = p->get("value");
			if (!v || !json_equal(*v, e.value)) { near = "notification for " + e.path + " carries value " + (v ? v->dump() : std::string("<none>")) + ", expected " + e.describe(); return false; }
		}
		return true;
	}
	if (e.kind == Exp::ROUTED) {
		if (cls != 2) return false;
		const JV *m = j.get("method"), *id = j.get("id"), *p = j.get("params");
		if (!m || m->t != JV::Str || m->s != e.path) return false;
		if (!id || id->t != JV::Str) { near = "routed request without string id"; return false; }
		if (!p || !json_equal(*p, e.params)) { near = "routed request for " + e.path + " carries params " + (p ? p->dump() : std::string("<none>")) + ", expected " + e.params.dump(); return false; }
		return true;
	}
	return false;
}

static size_t active_limit(std::deque<Exp> &q) {
	// index one past the last candidate: all items up to and including the group of the first mandatory item
	bool found = false; uint64_t g = 0; size_t lim = q.size();
	for (size_t i = 0; i < q.size(); i++) {
		if (!found) { if (!q[i].optional) { found = true; g = q[i].group; } }
		else if (q[i].group != g) { lim = i; break; }
	}
	return lim;
}

bool World::try_match(Client &cl, const Frame &f, std::string &why) {
	int cls = classify(f);
	size_t lim = active_limit(cl.expq);
	for (size_t i = 0; i < lim; i++) {
		Exp &e = cl.expq[i];
		if (e.kind == Exp::CLOSE) continue;
		std::string near;
		if (!content_match(e, f, cls, near)) { if (!near.empty() && why.empty()) why = near; continue; }
		bool blocked = false;
		for (size_t k = 0; k < lim; k++) if (k != i && cl.expq[k].group == e.group && !cl.expq[k].optional && cl.expq[k].rank < e.rank) blocked = true;
		if (blocked) { why = "frame arrives before frames that must precede it: " + e.describe(); continue; }
		Exp copy = e;
		dbg("matched c%d: %s", cl.idx, e.describe().c_str());
		cl.expq.erase(cl.expq.begin() + i);
		after_match(cl, copy, f);
		return true;
	}
	return false;
}

bool World::match_close(Client &cl) {
	for (;;) {
		size_t lim = active_limit(cl.expq);
		for (size_t i = 0; i < lim; i++) if (cl.expq[i].kind == Exp::CLOSE) {
			// everything mandatory that had to come before the close must have been seen
			for (size_t k = 0; k < i; k++) if (!cl.expq[k].optional)
				violation(cl.expq[k].prop, "closed-before-frame", "connection c" + std::to_string(cl.idx) + " was closed before it received " + cl.expq[k].describe());
			if (cl.expq[i].need_frame && !cl.expq[i].got_frame && !cl.client_closed && cl.space < 0 && !cl.wr_err)
				violation("C12", "closed-without-close-frame", "WebSocket connection c" + std::to_string(cl.idx) + " was dropped without the close frame that must precede it (" + cl.expq[i].describe() + ")");
			cl.expq.clear();
			return true;
		}
		if (cl.closing) { cl.expq.clear(); return true; }
		if (!feed_one_pending() && !feed_next_batch_error()) return false;
		if (cl.closing) { cl.expq.clear(); return true; }
	}
}

void World::resolve_silent_decisions() {
	model_version++;
	for (int d : model.silent_decisions()) {
		model.resolve_decision(d, model.decisions[d].silent_accept);
		for (auto &c2 : clients) for (size_t i = 0; i < c2.expq.size();) { if (c2.expq[i].decision == d && c2.expq[i].optional) c2.expq.erase(c2.expq.begin() + i); else i++; }
	}
}

void World::after_match(Client &cl, const Exp &e, const Frame &f) {
	model_version++;
	int d = e.decision;
	if (e.kind == Exp::RESP) { const JV *id = f.j.get("id"); if (id && (id->t == JV::Str || id->t == JV::Num)) { auto it = cl.ledger.find(idkey(*id)); if (it != cl.ledger.end() && it->second > 0) it->second--; } }
	if (e.kind == Exp::ROUTED) model.on_routed_seen(e.routed_ref, f.j.gets("id"));
	if (d >= 0 && d < (int)model.decisions.size() && model.decisions[d].state == 0) {
		bool decided = false, ok = false;
		if (e.kind == Exp::RESP && e.rk == Exp::R_EITHER) { decided = true; ok = f.j.has("result"); }
		else if (e.kind == Exp::ROUTED) { decided = true; ok = true; }
		else if (e.kind == Exp::RESP && e.optional) { decided = true; ok = false; }
		else if (e.kind == Exp::NOTIFY && e.optional) { matched_optional[d]++; if (model.decisions[d].silent_refusal) { decided = true; ok = true; } }
		if (decided) {
			model.resolve_decision(d, ok);
			if (!ok && matched_optional[d] > 0 && !model.decisions[d].silent_refusal)
				violation(e.prop == "C16" ? "C16" : "C01", "notified-then-refused", "notifications were sent for a request that was then refused (" + model.decisions[d].what + ")");
			for (auto &c2 : clients) {
				for (size_t i = 0; i < c2.expq.size();) {
					Exp &x = c2.expq[i];
					if (x.decision == d && x.optional) { if (ok && x.kind == Exp::NOTIFY) { x.optional = false; i++; } else c2.expq.erase(c2.expq.begin() + i); }
					else i++;
				}
			}
		}
	}
	(void)cl;
}

std::string World::frame_text(const Frame &f) {
	if (f.t == Frame::JSON) { std::string s = f.j.dump(); if (s.size() > 300) s = s.substr(0, 300) + "..."; return s; }
	if (f.t == Frame::HTTP) return "HTTP " + std::to_string(f.http_status);
	if (f.t == Frame::WS_CTRL || f.t == Frame::WS_OTHER) return "ws opcode " + std::to_string(f.wsop) + " len " + std::to_string(f.raw.size());
	return "unparseable frame (" + std::to_string(f.raw.size()) + " bytes): " + hexenc(f.raw.substr(0, 32));
}

void World::on_frames(Client &cl, std::vector<Frame> &fr) {
	for (auto &f : fr) {
		res.st.frames_seen++; cl.frames_out++;
		on_frame(cl, f);
	}
}

void World::on_frame(Client &cl, const Frame &f) {
	if (cl.policy.getb("c19")) { if (f.t == Frame::HTTP) c19_on_handshake_response(cl, f); else c19_on_frame(cl, f); return; }
	// transport-level checks that hold in every mode
	if (f.t == Frame::GARBAGE || f.t == Frame::BADJSON) {
		if (!cl.no_expect || mode == "exact") violation("C10", "torn-or-garbled-frame", "connection c" + std::to_string(cl.idx) + " received " + frame_text(f));
		return;
	}
	if (f.t == Frame::HTTP) {
		std::string want = cl.policy.gets("expect_http");
		if (want == "reject") {
			// C13: anything that is not a valid upgrade to the configured target
			if (f.http_status == 101) violation("C13", "invalid-upgrade-accepted", "a request that is not a valid WebSocket upgrade (" + cl.policy.gets("defect") + ") was answered with 101 Switching Protocols");
			if (f.http_status >= 400 && f.http_status <= 599) { cl.http_err_seen = true; probe("http_error_status:" + std::to_string(f.http_status)); }
			else violation("C13", "bad-status-for-invalid-request", "invalid request (" + cl.policy.gets("defect") + ") answered with status " + std::to_string(f.http_status) + ": " + ascii_safe(f.raw.substr(0, 60)));
			return;
		}
		if (want == "any") return;
		if (cl.hs_sent && !cl.no_expect && mode != "none" && fault_turn >= 0 && f.http_status >= 500) { probe("upgrade_refused_after_injected_fault"); Input in; in.t = Input::GONE; in.c = cl.idx; in.why = "upgrade refused"; shadow_log(in); return; }
		if (cl.hs_sent && !cl.no_expect && mode != "none") {
			if (f.http_status != 101) violation("C12", "valid-upgrade-refused", "a valid upgrade request was answered with status " + std::to_string(f.http_status));
			std::string key = cl.policy.gets("wskey");
			if (!key.empty() && f.raw.find("Sec-WebSocket-Accept: " + ws_accept_for(key) + "\r\n") == std::string::npos)
				violation("C12", "wrong-accept-digest", "101 response does not carry the accept digest for the offered key");
			if (wsstrict) {
				std::string low; for (char ch : f.raw) low += (char)tolower((unsigned char)ch);
				if (low.find("\r\nupgrade: websocket\r\n") == std::string::npos || low.find("\r\nconnection: upgrade\r\n") == std::string::npos)
					violation("C12", "bad-101-headers", "101 response lacks the Upgrade/Connection headers RFC 6455 requires");
				size_t pp = low.find("\r\nsec-websocket-protocol:");
				if (cl.policy.getb("offers_jet")) {
					if (pp == std::string::npos) violation("C12", "subprotocol-not-confirmed", "the client offered the jet subprotocol but the 101 response does not select it");
					else { size_t e2 = low.find("\r\n", pp + 2); std::string v = low.substr(pp + 26, e2 - pp - 26); while (!v.empty() && v[0] == ' ') v.erase(0, 1); if (v != "jet") violation("C12", "wrong-subprotocol", "101 response selects subprotocol '" + v + "'"); }
				}
				if (low.find("sec-websocket-extensions") != std::string::npos && !cl.policy.getb("offers_ext")) violation("C12", "extension-not-offered", "101 response announces an extension the client did not offer");
			}
			cl.hs_ok = true; probe("ws_upgraded");
		}
		return;
	}
	if (cl.od.ws && (f.t == Frame::JSON || f.t == Frame::WS_CTRL || f.t == Frame::WS_OTHER || f.t == Frame::BADJSON)) {
		if (f.masked) violation("C12", "server-frame-masked", "server sent a masked frame");
		if (!f.minimal) violation("C12", "non-minimal-length", "server frame length is not minimally encoded");
		if (f.rsv) violation("C12", "server-rsv-set", "server frame has reserved bits set without a negotiated extension");
		if (wsstrict && cl.close_frame_seen) violation("C12", "frame-after-close", "server sent another frame (opcode " + std::to_string(f.wsop) + ") after its close frame");
	}
	if (f.t == Frame::WS_CTRL || f.t == Frame::WS_OTHER) {
		probe("ws_ctrl_from_daemon:" + std::to_string(f.wsop));
		if (!wsstrict || mode != "exact" || cl.no_expect || cl.faulty) return;
		if (f.t == Frame::WS_OTHER) { violation("C12", "server-frame-not-complete", "server sent a frame with opcode " + std::to_string(f.wsop) + (f.fin ? "" : " without FIN") + ": data frames must be complete text messages"); return; }
		if (!f.fin) violation("C12", "server-control-fragmented", "server sent a fragmented control frame");
		if (f.raw.size() > 125) violation("C12", "server-control-too-long", "server control frame with " + std::to_string(f.raw.size()) + " bytes of payload");
		if (f.wsop == 8) { on_ws_close_frame(cl, f); return; }
		if (f.wsop == 9) { probe("ws_ping_from_daemon"); return; }
		if (f.wsop == 10) {
			std::string why;
			for (;;) {
				if (try_match(cl, f, why)) { probe("ws_pong_matched"); return; }
				if (!feed_one_pending() && !feed_next_batch_error()) break;
			}
			violation("C12", why.empty() ? "unexpected-pong" : "wrong-pong", "connection c" + std::to_string(cl.idx) + " received a pong (" + hexenc(f.raw.substr(0, 32)) + ") that no ping explains" + (why.empty() ? "" : "; " + why));
		}
		violation("C12", "server-reserved-opcode", "server sent a control frame with reserved opcode " + std::to_string(f.wsop));
		return;
	}
	client_reaction(cl, f);
	if (mode == "exact" && cl.faulty && !cl.no_expect && classify(f) == 2) {
		// a routed request that did reach a faulty owner: its id is learnt so that the owner's reply, if it ever sends one, is attributed
		// the request that caused it may be a later message of the read being processed: feed only as far as needed (the deadline timers of the
		// following requests are attributed in the order in which the model learns of them)
		while (!model.on_routed_observed(cl.idx, f.j.gets("method"), f.j.get("params"), f.j.gets("id")) && feed_one_pending()) {}
		// expectations that were conditional on a decision taken meanwhile (the request was accepted for routing) are void
		for (auto &c2 : clients) for (size_t i = 0; i < c2.expq.size();) { Exp &x = c2.expq[i]; if (x.optional && x.decision >= 0 && x.decision < (int)model.decisions.size() && model.decisions[x.decision].state != 0) c2.expq.erase(c2.expq.begin() + (long)i); else i++; }
	}
	if (cl.closing || cl.no_expect || cl.faulty) return;
	if (mode == "ledger") { ledger_frame(cl, f); shadow_check_get(cl, f); shadow_check_auth(cl, f); shadow_check_notify(cl, f); return; }
	if (mode != "exact") return;
	std::string why;
	for (;;) {
		if (try_match(cl, f, why)) { update_replica(cl, f); return; }
		if (!feed_one_pending() && !feed_next_batch_error()) break;
		if (cl.closing) return;
	}
	int cls = classify(f);
	// A faulty peer is dropped by the daemon when the answer to its own request cannot be written. The consequences for others
	// (remove events, shutdown errors) are written before its descriptor is closed, so the drop is inferred here and must be
	// confirmed by the close before the daemon returns to its event loop.
	int cand = -1;
	if (presumed_drop < 0) {
		auto plausible = [&](int ci) {
			if (ci < 0 || ci >= (int)clients.size() || ci == cl.idx) return false;
			Client &x = clients[ci]; auto it = model.peers.find(ci);
			bool impaired = x.space == 0 || x.wr_err || x.blocked || (x.client_closed && x.wr_fail_after_close);
			return x.faulty && impaired && !x.no_expect && !x.closing && !x.daemon_closed && x.accepted && it != model.peers.end() && it->second.alive;
		};
		if (plausible(last_fed_client)) cand = last_fed_client;                      // the peer whose request is being processed
		else for (auto &b : batch) { KFd *k = g_kernel.get(b.fd); if (k && k->kind == FD_STREAM && plausible(k->client)) { cand = k->client; break; } }   // or one whose readiness event is being handled
	}
	if (cand >= 0) {
		Client &x = clients[cand];
		{
			presumed_drop = x.idx; x.closing = true; probe("faulty_peer_drop_inferred");
			resolve_silent_decisions();
			model.on_peer_gone(x.idx, false);
			{ Input gi; gi.t = Input::GONE; gi.c = x.idx; gi.why = "drop of a faulty peer inferred"; shadow_log(gi); }
			std::string why2;
			if (try_match(cl, f, why2)) { update_replica(cl, f); return; }
			presumed_detail = "(the frame is not explained by the daemon dropping faulty peer c" + std::to_string(x.idx) + " either) ";
		}
	}
	std::string prop = cls == 1 ? model.notify_prop : cls == 2 ? "C03" : "C02";
	std::string rule = cls == 1 ? "unexpected-notification" : cls == 2 ? "unexpected-routed-request" : cls == 0 ? "unexpected-response" : "malformed-frame";
	std::string detail = "connection c" + std::to_string(cl.idx) + " (" + cl.transport + ") received " + frame_text(f) + " which nothing it is entitled to explains";
	if (!why.empty()) { detail += "; closest expectation: " + why; }
	if (!cl.expq.empty()) detail += "; next expected: " + cl.expq.front().describe();
	// attribute mismatches to the property owning the closest expectation
	if (!why.empty()) for (auto &e : cl.expq) { std::string n; if ((e.kind == Exp::RESP && cls == 0) || (e.kind == Exp::NOTIFY && cls == 1) || (e.kind == Exp::ROUTED && cls == 2)) { prop = e.prop; rule = cls == 1 ? "wrong-notification" : cls == 2 ? "wrong-routed-request" : "wrong-response"; break; } }
	violation(prop, rule, detail);
}

// ------------------------------------------------------------------ replicas (C01 cross-check built from received frames only)
void World::update_replica(Client &cl, const Frame &f) {
	if (classify(f) != 1) return;
	const JV *m = f.j.get("method"), *p = f.j.get("params");
	if (!m || !p) return;
	std::string key = m->dump(); std::string path = p->gets("path"), ev = p->gets("event");
	auto &rep = cl.replica[key];
	if (ev == "add") {
		if (rep.count(path)) violation("C01", "duplicate-add", "fetch " + key + " on c" + std::to_string(cl.idx) + " got add for already reported path " + path);
		const JV *v = p->get("value"); rep[path] = v ? *v : JV();
		probe("notify_add");
	} else if (ev == "change") {
		if (!rep.count(path)) violation("C01", "change-for-unreported", "fetch " + key + " got change for a path never reported: " + path);
		const JV *v = p->get("value"); rep[path] = v ? *v : JV();
		probe("notify_change");
	} else if (ev == "remove") {
		if (!rep.count(path)) violation("C01", "remove-for-unreported", "fetch " + key + " got remove for a path never reported: " + path);
		rep.erase(path);
		probe("notify_remove");
	}
}

void World::check_replicas() {
	if (mode != "exact") return;
	for (auto &cl : clients) {
		if (cl.no_expect || cl.faulty || cl.closing || cl.daemon_closed || !cl.accepted) continue;
		if (cl.space >= 0 || cl.wcap) continue;
		auto it = model.peers.find(cl.idx);
		if (it == model.peers.end() || !it->second.alive) continue;
		for (auto &f : it->second.fetches) {
			std::string key = f.id.dump();
			auto &rep = cl.replica[key];
			std::map<std::string, JV> want;
			for (auto &kv : model.elems) if (model.visible(it->second, kv.second) && f.rule.matches(kv.first)) want[kv.first] = kv.second.is_state ? kv.second.value : JV();
			if (want.size() != rep.size()) violation("C01", "replica-diverged", "fetch " + key + " on c" + std::to_string(cl.idx) + " replays to " + std::to_string(rep.size()) + " elements, " + std::to_string(want.size()) + " exist and match");
			for (auto &w : want) {
				auto r = rep.find(w.first);
				if (r == rep.end()) violation("C01", "replica-diverged", "fetch " + key + ": matching element " + w.first + " missing from replica");
				if (!json_equal(r->second, w.second)) violation("C01", "replica-stale-value", "fetch " + key + ": replica value of " + w.first + " is " + r->second.dump() + ", current is " + w.second.dump());
			}
		}
		// replicas of fetches that no longer exist must be gone
	}
}

// ------------------------------------------------------------------ ledger mode (C02 hostile shapes, C06)
static std::string idkey(const JV &id) {
	if (id.t == JV::Str) return "s" + id.s;
	char b[40]; snprintf(b, sizeof b, "n%.17g", id.d); return b; // exact: two ids that differ in the 16th digit are two ids
}

void World::ledger_request(Client &cl, const std::string &text) {
	JV j;
	if (mode == "exact") {
		// exact mode keeps the ledger only so that it is correct if the run has to fall back to it (allocation-failure injection)
		if (!json_parse(text, j) || j.t != JV::Obj) return;
		const JV *id = j.get("id");
		// everything with a usable id is answered, except an incoming response object (result/error without method)
		bool is_response = !j.has("method") && (j.has("result") || j.has("error"));
		if (id && !is_response && (id->t == JV::Str || id->t == JV::Num)) { cl.ledger[idkey(*id)]++; cl.ledger_turn[idkey(*id)] = (long)res.st.batches; }
		return;
	}
	// password changes attempted while only the ledger judges (after a failed allocation): each may replace an item of the in-memory credential database
	if (text.find("\"passwd\"") != std::string::npos) { JV q; if (json_parse(text, q)) { if (q.t == JV::Obj && q.gets("method") == "passwd") passwd_in_ledger_mode++; if (q.t == JV::Arr) for (auto &m : q.a) if (m.t == JV::Obj && m.gets("method") == "passwd") passwd_in_ledger_mode++; } }
	if (json_parse(text, j) && jv_has_nul(j)) { cl.policy.set("maydrop", JV::boolean(true)); cl.no_expect = true; probe("ledger_message_with_escaped_nul"); return; }
	if (!json_parse(text, j)) {
		// the harness parser is strict, the daemon's is lenient: what it makes of this text is not predictable, so only survival is checked on this connection from here on
		cl.policy.set("maydrop", JV::boolean(true)); cl.no_expect = true; probe("ledger_unparsable_message"); return;
	}
	auto reg = [&](const JV &o) {
		if (o.t != JV::Obj) return false;
		const JV *id = nullptr;
		for (auto &kv : o.o) { std::string k = kv.first; for (auto &ch : k) ch = (char)tolower((unsigned char)ch); if (k == "id") { id = &kv.second; break; } }
		bool is_req = false, is_resp = false;
		for (auto &kv : o.o) { std::string k = kv.first; for (auto &ch : k) ch = (char)tolower((unsigned char)ch); if (k == "method") is_req = true; else if (k == "result" || k == "error") is_resp = true; }
		if (!is_req && is_resp) { probe("response_as_request"); if (!id || id->t != JV::Str) return false; return true; }
		if (id && (id->t == JV::Str || id->t == JV::Num)) { cl.ledger[idkey(*id)]++; cl.ledger_turn[idkey(*id)] = (long)res.st.batches; probe("ledger_request"); if (id->t == JV::Num && id->d != std::floor(id->d)) probe("id_fraction"); if (id->t == JV::Num && (id->d > 2147483647.0 || id->d < -2147483648.0)) probe("id_beyond_int"); }
		else probe("no_id_request");
		return true;
	};
	if (j.t == JV::Obj) { if (!reg(j)) cl.policy.set("maydrop", JV::boolean(true)); }
	else if (j.t == JV::Arr) { for (auto &m : j.a) if (!reg(m)) { cl.policy.set("maydrop", JV::boolean(true)); break; } }
	else cl.policy.set("maydrop", JV::boolean(true));
}

void World::ledger_frame(Client &cl, const Frame &f) {
	int cls = classify(f);
	if (cls == -1) { violation("C02", "malformed-frame", "connection c" + std::to_string(cl.idx) + " received " + frame_text(f)); return; }
	if (cls != 0) return;
	const JV *id = f.j.get("id");
	bool r = f.j.has("result"), e = f.j.has("error");
	if (r == e) violation("C02", "result-and-error", "response carries both or neither of result and error: " + frame_text(f));
	if (id->t == JV::Null) {
		// a numeric id beyond the range of a double (1e900) cannot be echoed by the daemon's JSON library, which prints it as null: a finding of its own
		for (const char *k : {"ninf", "n-inf"}) { auto nf = cl.ledger.find(k); if (nf != cl.ledger.end() && nf->second > 0) { nf->second--; violation("C02", "nonfinite-numeric-id-answered-with-null", "a request whose numeric id lies outside the range of a double was answered with " + frame_text(f) + " instead of a response carrying an equal id"); return; } }
	}
	if (id->t != JV::Str && id->t != JV::Num) violation("C02", "response-id-type", "response with an id that is neither string nor number: " + frame_text(f));
	auto it = cl.ledger.find(idkey(*id));
	while ((it == cl.ledger.end() || it->second <= 0) && feed_one_pending()) it = cl.ledger.find(idkey(*id)); // a message of the same read not yet accounted
	if (cl.no_expect) return;
	if (it == cl.ledger.end() || it->second <= 0)
		violation("C02", "unsolicited-or-duplicate-response", "connection c" + std::to_string(cl.idx) + " received " + frame_text(f) + " but has no outstanding request with an equal id");
	it->second--;
	probe("ledger_response");
}

// ------------------------------------------------------------------ owner reactions
void World::client_reaction(Client &cl, const Frame &f) {
	if (classify(f) != 2) return;
	if (cl.client_closed || cl.daemon_closed) return;
	std::string pmode = cl.policy.gets("mode", "result");
	const JV *idv = f.j.get("id");
	if (!idv || idv->t != JV::Str) return;
	probe("routed_seen_by_owner");
	if (pmode == "never") { probe("owner_never_replies"); return; }
	uint64_t delay = (uint64_t)cl.policy.getd("delay", 0);
	cl.reply_serial++;
	std::string tok = "c" + std::to_string(cl.idx) + "-" + std::to_string(cl.reply_serial);
	{ int ref = model.latest_routed_with_rid(cl.idx, idv->s); if (ref >= 0) model.reply_instance[tok] = ref; }
	JV msg = JV::obj();
	msg.set("id", *idv);
	if (pmode == "error") { JV er = JV::obj(); er.set("code", JV::num(-7)); er.set("message", JV::str("owner says no " + tok)); msg.set("error", er); }
	else { JV r = JV::obj(); r.set("tok", JV::str(tok)); if (cl.policy.getd("expand", 0) > 0 && g_variant.max_write_buffer >= 4096) { /* not where the relayed answer would be larger than the caller's whole write buffer, see DESIGN.md Appendix E */ JV a = JV::arr(); for (int i = 0; i < (int)cl.policy.getd("expand", 0); i++) a.push(JV::numraw("1e14")); r.set("big", a); } msg.set("result", r); }
	if ((int)msg.dump().size() + 8 > g_variant.max_message && pmode != "error") { JV r2 = JV::obj(); r2.set("tok", JV::str(tok)); msg.put("result", r2); }   // an owner keeps its answers within the message limit
	if (cl.policy.getb("forge")) { JV fg = JV::obj(); fg.set("id", JV::str("forged-" + tok)); fg.set("result", JV::str("forged")); schedule(now + delay, EV_REPLY, cl.idx, 0, fg.dump()); probe("forged_reply"); }
	schedule(now + delay, EV_REPLY, cl.idx, 0, msg.dump());
	if (cl.policy.getb("dup")) { schedule(now + delay + (uint64_t)cl.policy.getd("dupdelay", 0), EV_REPLY, cl.idx, 0, msg.dump()); probe("duplicate_reply"); }
}

// ------------------------------------------------------------------ accounting (C07)
void World::record_baseline() {
	base_alloc = cjet_get_alloc_size ? cjet_get_alloc_size() : 0;
	base_live_blocks = g_arena.live_blocks; base_live_bytes = g_arena.live_bytes; base_last_seq = g_arena.nallocs;
	base_peers = get_number_of_peers ? get_number_of_peers() : 0;
	base_fds.clear();
	for (auto &k : g_kernel.fds) if (k.open) base_fds.push_back(k.fd);
	base_epoll = 0; for (auto &k : g_kernel.fds) if (k.open && k.in_epoll) base_epoll++;
}

void World::check_idle_baseline() {
	probe("idle_baseline_checked");
	std::string bp = plan.hdr.gets("baseprop", "C07");
	std::string leaked;
	{ int n = 0; for (auto &b : g_arena.blocks) if (b.live && b.seq > base_last_seq) { if (n++ < 6) leaked += " #" + std::to_string(b.seq) + "(" + std::to_string(b.size) + "B)"; } if (n > 6) leaked += " ..."; }
	// a password change replaces one item of the in-memory credential database for good: per change three blocks (item, key, value) may differ from the start-up baseline
	size_t nchg = pw_changes.size() + passwd_in_ledger_mode;   // an attempt that failed and was rolled back also re-creates the item's key
	if (nchg > 0) {
		long db = (long)g_arena.live_blocks - (long)base_live_blocks, dy = (long)g_arena.live_bytes - (long)base_live_bytes;
		if (db < 0 || db > 0 || dy > (long)(nchg * 200) || dy < -(long)(nchg * 200))
			violation(bp, "memory-not-reclaimed", "allocator has " + std::to_string(g_arena.live_blocks) + " live blocks / " + std::to_string(g_arena.live_bytes) + " bytes with no connection left after " + std::to_string(nchg) + " password changes; baseline " + std::to_string(base_live_blocks) + " / " + std::to_string(base_live_bytes) + ";" + leaked);
		probe("baseline_after_password_change");
	} else
	if (cjet_get_alloc_size && cjet_get_alloc_size() != base_alloc)
		violation(bp, "heap-not-at-baseline", "accounted heap is " + std::to_string(cjet_get_alloc_size()) + " bytes with no connection left, idle baseline was " + std::to_string(base_alloc) + "; live allocations made since:" + leaked);
	if (get_number_of_peers && get_number_of_peers() != base_peers)
		violation(bp, "peer-count-not-at-baseline", "peer count " + std::to_string(get_number_of_peers()) + " with no connection left");
	for (auto &k : g_kernel.fds) {
		if (!k.open) continue;
		if (std::find(base_fds.begin(), base_fds.end(), k.fd) == base_fds.end()) {
			const char *kn = k.kind == FD_TIMER ? "timerfd" : k.kind == FD_STREAM ? "connection" : k.kind == FD_FILE ? "file" : "descriptor";
			violation(bp, std::string("fd-leak/") + kn, std::string("a ") + kn + " is still open after every connection is gone" + (k.in_epoll ? " (and still registered with epoll)" : ""));
		}
		if (k.kind == FD_TIMER && k.armed) violation(bp, "timer-still-armed", "a timer is still armed with no connection left");
	}
	if (nchg == 0 && (g_arena.live_blocks != base_live_blocks || g_arena.live_bytes != base_live_bytes)) {
		std::string which;
		int n = 0;
		for (auto &b : g_arena.blocks) if (b.live && b.seq > 0) { if (n++ < 3 && b.seq > base_live_blocks) which += " #" + std::to_string(b.seq) + "(" + std::to_string(b.size) + "B)"; }
		violation(bp, "memory-not-reclaimed", "allocator has " + std::to_string(g_arena.live_blocks) + " live blocks / " + std::to_string(g_arena.live_bytes) + " bytes with no connection left; baseline " + std::to_string(base_live_blocks) + " / " + std::to_string(base_live_bytes) + "; live allocations made since:" + leaked);
	}
}

void World::check_exit() {
	for (auto &k : g_kernel.fds) if (k.open) {
		const char *kn = k.kind == FD_TIMER ? "timerfd" : k.kind == FD_STREAM ? "connection" : k.kind == FD_LISTEN ? "listener" : k.kind == FD_EPOLL ? "epoll" : k.kind == FD_FILE ? "file" : "descriptor";
		violation("C07", std::string("fd-open-at-exit/") + kn, std::string("a ") + kn + " descriptor is still open when main() returns");
	}
	if (g_arena.live_blocks != 0) {
		std::string leaked; int n = 0; for (auto &b : g_arena.blocks) if (b.live) { if (n++ < 6) leaked += " #" + std::to_string(b.seq) + "(" + std::to_string(b.size) + "B)"; }
		violation("C07", "memory-at-exit", std::to_string(g_arena.live_blocks) + " allocations (" + std::to_string(g_arena.live_bytes) + " bytes) still live when main() returns:" + leaked);
	}
	probe("exit_checked");
}

// ------------------------------------------------------------------ WebSocket conformance (C12): RFC 6455 table, independent of the daemon's code
static int close_code_class(int code) {
	// 0 must reject, 1 must accept, 2 either (registered after the RFC)
	if (code < 1000) return 0;
	if (code <= 1003) return 1;
	if (code <= 1006) return 0;
	if (code <= 1011) return 1;
	if (code <= 1014) return 2;
	if (code <= 2999) return 0;
	if (code <= 4999) return 1;
	return 0;
}

int World::classify_ws(Client &cl, const WsInFrame &wf) {
	if (!wf.masked) return W_1002;
	if (wf.rsv != 0) return W_1002;
	int op = wf.opcode;
	if ((op >= 3 && op <= 7) || op >= 11) return W_1002;
	if (op >= 8) {
		if (!wf.fin) return W_1002;
		if (wf.len > 125) return (op == 8 && wf.len >= 2 && !valid_utf8(wf.payload.substr(2))) ? W_1002_OR_1007 : W_1002;
		if (op == 9) return W_PING;
		if (op == 10) return W_PONG;
		if (wf.len == 0) return W_CLOSE_OK;
		if (wf.len == 1) return W_1002;
		int code = ((unsigned char)wf.payload[0] << 8) | (unsigned char)wf.payload[1];
		int cc = close_code_class(code);
		bool utf_ok = valid_utf8(wf.payload.substr(2));
		if (cc == 0) return utf_ok ? W_1002 : W_1002_OR_1007;
		if (!utf_ok) return cc == 1 ? W_1007 : W_1002_OR_1007;
		return W_CLOSE_OK;   // class 2 codes: a close frame of any status
	}
	if (op == 0) {
		if (!cl.ws_in_frag) return W_1002;
		if (wf.fin) cl.ws_in_frag = false;
		return W_FRAG;
	}
	// op 1 or 2
	if (cl.ws_in_frag) return W_1002;
	if (!wf.fin) { cl.ws_in_frag = true; return W_FRAG; }
	return op == 1 ? W_TEXT : W_BINARY;
}

void World::on_ws_close_frame(Client &cl, const Frame &f) {
	if (cl.close_frame_seen) violation("C12", "duplicate-close-frame", "server sent a second close frame");
	cl.close_frame_seen = true;
	int status = -1;
	if (f.raw.size() == 1) violation("C12", "malformed-close-frame", "server close frame with a 1-byte payload");
	if (f.raw.size() >= 2) {
		status = ((unsigned char)f.raw[0] << 8) | (unsigned char)f.raw[1];
		if (!valid_utf8(f.raw.substr(2))) violation("C12", "malformed-close-frame", "server close frame reason is not valid UTF-8");
		if (close_code_class(status) == 0) violation("C12", "malformed-close-frame", "server close frame carries status " + std::to_string(status) + " which must not appear on the wire");
	}
	cl.close_frame_status = status;
	probe("ws_close_from_daemon:" + std::to_string(status));
	for (;;) {
		size_t lim = cl.expq.size();
		for (size_t i = 0; i < lim; i++) {
			Exp &e = cl.expq[i];
			if (e.kind != Exp::CLOSE) continue;
			bool ok = e.ws_status == 0 || e.ws_status == status || (e.ws_status == 10027 && (status == 1002 || status == 1007));
			if (!ok) violation("C12", "wrong-close-status", "connection c" + std::to_string(cl.idx) + " was closed with status " + std::to_string(status) + ", required: " + e.describe());
			e.got_frame = true;
			return;
		}
		if (cl.closing) return;
		if (!feed_one_pending() && !feed_next_batch_error()) break;
	}
	violation("C12", "unexpected-close-frame", "connection c" + std::to_string(cl.idx) + " received a close frame (status " + std::to_string(status) + ") although nothing it sent or suffered ends the connection");
}
