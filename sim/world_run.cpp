// Plan execution: ops, phases at the end of a plan, canary, result reporting, (de)serialisation.
#include "wimpl.h"
#include <cstring>
#include <cstdio>
#include <cerrno>
#include <unistd.h>
#include <crypt.h>
#include <sys/socket.h>
#include <sys/epoll.h>
#include <netinet/in.h>
#include <algorithm>

int g_result_fd = 1;
extern "C" int get_number_of_peers(void) __attribute__((weak));
typedef int (*peers_fn)(void);
static peers_fn get_number_of_peers_fn() { return get_number_of_peers; }

// ------------------------------------------------------------------ JSON (de)serialisation
JV Op::to_json() const {
	JV j = JV::obj();
	j.set("k", JV::str(k));
	if (c >= 0) j.set("c", JV::num(c));
	if (hold) j.set("hold", JV::boolean(true));
	if (dt) j.set("dt", JV::num((double)dt));
	j.set("uid", JV::num((double)uid));
	if (!a.o.empty()) j.set("a", a);
	return j;
}
Op Op::from_json(const JV &j) {
	Op o; o.k = j.gets("k"); o.c = (int)j.geti("c", -1); o.hold = j.getb("hold"); o.dt = (uint64_t)j.getd("dt", 0); o.uid = (uint64_t)j.getd("uid", 0);
	const JV *a = j.get("a"); if (a) o.a = *a;
	return o;
}
JV Plan::to_json() const {
	JV j = JV::obj();
	j.set("profile", JV::str(profile)); j.set("variant", JV::str(g_variant.name));
	char b[32]; snprintf(b, sizeof b, "%llu", (unsigned long long)seed); j.set("seed", JV::str(b));
	j.set("hdr", hdr);
	JV arr = JV::arr(); for (auto &o : ops) arr.push(o.to_json());
	j.set("ops", arr);
	return j;
}
bool Plan::from_json(const JV &j, Plan &p) {
	if (j.t != JV::Obj) return false;
	p.profile = j.gets("profile"); p.seed = strtoull(j.gets("seed", "0").c_str(), nullptr, 10);
	const JV *h = j.get("hdr"); if (h) p.hdr = *h;
	const JV *ops = j.get("ops"); if (!ops || ops->t != JV::Arr) return false;
	p.ops.clear(); for (auto &o : ops->a) p.ops.push_back(Op::from_json(o));
	return true;
}

JV RunResult::to_json() const {
	JV j = JV::obj();
	j.set("violated", JV::boolean(violated));
	if (violated) { j.set("prop", JV::str(v.prop)); j.set("rule", JV::str(v.rule)); j.set("detail", JV::str(ascii_safe(v.detail))); }
	if (inconclusive) j.set("inconclusive", JV::str(inconclusive_why));
	if (harness_error) j.set("harness_error", JV::str(harness_what));
	char b[32]; snprintf(b, sizeof b, "%016llx", (unsigned long long)trace_hash); j.set("trace", JV::str(b));
	j.set("exit", JV::num(exit_status));
	j.set("nontrivial", JV::boolean(nontrivial));
	JV s = JV::obj();
	s.set("steps", JV::num((double)st.steps)); s.set("batches", JV::num((double)st.batches)); s.set("multi_batches", JV::num((double)st.multi_batches));
	s.set("max_batch", JV::num((double)st.max_batch)); s.set("msgs", JV::num((double)st.msgs_consumed)); s.set("frames", JV::num((double)st.frames_seen));
	s.set("bytes_in", JV::num((double)st.bytes_in)); s.set("bytes_out", JV::num((double)st.bytes_out)); s.set("vtime_ns", JV::num((double)st.vtime_ns));
	s.set("allocs", JV::num((double)st.allocs)); s.set("syscalls", JV::num((double)st.syscalls));
	JV fps = JV::arr(); for (auto f : st.state_fps) { snprintf(b, sizeof b, "%llx", (unsigned long long)f); fps.push(JV::str(b)); } s.set("state_fps", fps);
	JV bs = JV::arr(); for (auto f : st.batch_sigs) { snprintf(b, sizeof b, "%llx", (unsigned long long)f); bs.push(JV::str(b)); } s.set("batch_sigs", bs);
	JV pr = JV::obj(); for (auto &kv : st.probes) pr.set(kv.first, JV::num((double)kv.second)); s.set("probes", pr);
	j.set("stats", s);
	if (!extra.o.empty()) j.set("extra", extra);
	return j;
}

// ------------------------------------------------------------------ ops
KFd *find_listener(const std::string &tr, const std::string &ip) {
	int port = tr == "ws" ? 11123 : 11122;
	bool v6 = ip.find(':') != std::string::npos;
	KFd *best = nullptr;
	for (auto &k : g_kernel.fds) {
		if (!k.open || k.kind != FD_LISTEN || !k.in_epoll) continue;
		if (tr == "uds") { if (k.sock_family == AF_UNIX) return &k; continue; }
		if (k.sock_family == AF_UNIX || k.bound.port != port) continue;
		bool any = k.bound.ip == "::" || k.bound.ip == "0.0.0.0";
		if (v6) { if (k.sock_family == AF_INET6 && (any || k.bound.ip == ip)) return &k; }
		else {
			if (k.sock_family == AF_INET && (any || k.bound.ip == ip)) return &k;
			if (k.sock_family == AF_INET6 && any && !k.v6only) best = &k;
		}
	}
	return best;
}

void World::exec_op(const Op &op) {
	dbg("op %s c=%d %s", op.k.c_str(), op.c, op.a.dump().c_str());
	trace.tag("op"); trace.str(op.k); trace.u64((uint64_t)op.c);
	Client *cl = nullptr;
	if (op.c >= 0) { auto it = plan2client.find(op.c); if (it != plan2client.end()) cl = &clients[it->second]; }
	const std::string &k = op.k;
	if (k == "connect") {
		if (cl) return; // already exists
		Client c; c.idx = (int)clients.size(); c.transport = op.a.gets("tr", "raw");
		c.origin_ip = op.a.gets("ip", "127.0.0.1"); c.un_path = hexdec(op.a.gets("un"));
		c.origin_local = c.transport == "uds" || c.origin_ip == "127.0.0.1" || c.origin_ip == "::1" || c.origin_ip == "::ffff:127.0.0.1";
		probe("origin:" + (c.transport == "uds" ? std::string("unix") : c.origin_ip));
		c.in.ws = c.od.ws = (c.transport == "ws"); c.in.maxmsg = g_variant.max_message;
		c.rdcap = (size_t)op.a.getd("rdcap", 0); c.wcap = (size_t)op.a.getd("wcap", 0); c.space = (int64_t)op.a.getd("space", -1); c.wboundary = op.a.getb("wboundary");
		const JV *pol = op.a.get("policy"); if (pol) c.policy = *pol;
		c.no_expect = op.a.getb("noexpect"); c.faulty = op.a.getb("faulty");
		// (the connection is only written off when the fault really fires: a local socket makes fewer configuration calls than a TCP one)
		if (op.a.has("epolladd")) c.epoll_add_errno = (int)op.a.getd("epolladd", ENOSPC);
		if (const JV *cf = op.a.get("cfgfail")) { c.cfg_fail_at = (int)cf->getd("n", 1); c.cfg_fail_errno = (int)cf->getd("errno", ENOBUFS); }
		std::string tr = c.transport == "ws" ? "ws" : c.transport == "uds" ? "uds" : "raw";
		KFd *l = find_listener(tr, c.origin_ip);
		clients.push_back(c); plan2client[op.c] = c.idx;
		Client &cc = clients.back();
		if (!l) { probe("connect_refused_no_listener"); return; }
		cc.connected = true;
		l->backlog.push_back(cc.idx); g_kernel.mark_pending(*l);
		probe("connect:" + cc.transport);
		if (cc.transport == "ws" && !op.a.getb("nohs")) {
			std::string key = op.a.gets("key", "dGhlIHNhbXBsZSBub25jZQ==");
			std::string hs = op.a.has("hshex") ? hexdec(op.a.gets("hshex")) : ws_handshake(plan.hdr.gets("target", "/api/jet/"), key, op.a.gets("proto", "jet"), op.a.gets("extra"));
			if (!op.a.has("hshex")) cc.policy.put("wskey", JV::str(key));
			send_from_client(cc, hs, op.a.get("seg"), (uint64_t)op.a.getd("gap", 0), op.uid);
		}
		return;
	}
	if (k == "acceptfail") {
		KFd *l = find_listener(op.a.gets("tr", "raw"), op.a.gets("ip", "127.0.0.1"));
		if (l) { l->backlog.push_back(-(int)op.a.geti("errno", ECONNABORTED)); g_kernel.mark_pending(*l); }
		return;
	}
	if (k == "sigterm") {
		long at = (long)op.a.getd("at_call", -1);
		if (at > 0) { sigterm_at_call = at; return; }
		begin_termination(); probe("sigterm_mid_plan");
		if (g_kernel.sigterm_handler) g_kernel.sigterm_handler(15);
		while (!q.empty()) q.pop();
		return;
	}
	if (k == "spurious") {
		// a readiness report without anything behind it: a connection, a listening socket or an armed timer
		KFd *t = nullptr;
		std::string what = op.a.gets("what", "conn");
		if (what == "conn" && cl && cl->accepted && !cl->daemon_closed) t = g_kernel.get(cl->fd);
		else if (what == "listen") t = find_listener(op.a.gets("tr", "raw"), "127.0.0.1");
		else if (what == "timer") { for (auto &kk : g_kernel.fds) if (kk.open && kk.kind == FD_TIMER && kk.in_epoll) { t = &kk; break; } }
		if (t && t->open && t->in_epoll) { t->spurious_in = true; g_kernel.mark_pending(*t); probe("fault:spurious_readiness:" + what); }
		return;
	}
	if (k == "epollintr") { epoll_intr += (int)op.a.geti("n", 1); return; }
	if (k == "closeeintr") { g_kernel.close_eintr += (int)op.a.geti("n", 1); probe("fault:close_interrupted"); return; }
	if (k == "timerfail") { g_kernel.timerfd_create_errs.push_back((int)op.a.geti("errno", EMFILE)); return; }
	if (k == "epolladdfail") { for (int i = 0; i < (int)op.a.geti("skip", 0); i++) g_kernel.epoll_add_errs.push_back(0); g_kernel.epoll_add_errs.push_back((int)op.a.geti("errno", ENOSPC)); return; }
	if (k == "advance") return;
	if (!cl) return;
	if (k == "send") {
		if (!cl->connected || cl->client_closed) return;
		std::string payload, bytes;
		if (op.a.has("hex")) bytes = hexdec(op.a.gets("hex"));
		else {
			if (op.a.has("msg")) payload = op.a.get("msg")->dump(); else if (op.a.has("texthex")) payload = hexdec(op.a.gets("texthex")); else payload = op.a.gets("text");
			if (cl->in.ws) bytes = ws_frame((int)op.a.geti("wsop", 1), payload, !op.a.getb("nofin"), !op.a.getb("nomask"), (uint32_t)mix64(plan.seed, (uint64_t)op.a.getd("muid", (double)op.uid)), (int)op.a.geti("rsv", 0), (int)op.a.geti("lenenc", 0));
			else bytes = raw_frame(payload);
		}
		long cut = (long)op.a.getd("cut", -1);
		if (cut >= 0 && (size_t)cut < bytes.size()) { bytes.resize((size_t)cut); probe("truncated_send"); }
		const JV *pf = op.a.get("pfrac");
		if (pf && pf->t == JV::Arr && pf->a.size() == 2 && bytes.size() >= 2) {
			// only a part of the encoded bytes: [0,k) now (an early prefix of a later message) or [k,end) later
			double f = pf->a[0].d > 0 ? pf->a[0].d : pf->a[1].d;
			size_t k = (size_t)(f * (double)bytes.size()); if (k < 1) k = 1; if (k > bytes.size() - 1) k = bytes.size() - 1;
			if (pf->a[0].d > 0) bytes = bytes.substr(k); else { bytes.resize(k); probe("early_prefix_of_next"); }
		}
		send_from_client(*cl, bytes, op.a.get("seg"), (uint64_t)op.a.getd("gap", 0), op.uid);
		return;
	}
	if (k == "close") {
		if (!cl->connected || cl->client_closed) return;
		std::string how = op.a.gets("how", "fin");
		cl->client_closed = true;
		if (how == "fin") cl->eof = true;
		else if (how == "rst") { cl->rx_err = ECONNRESET; if (cl->rx_off < cl->rx.size()) { cl->rx.resize(cl->rx_off); probe("unread_input_lost_with_reset"); } }   // a reset takes the unread input with it
		else { cl->hup = true; cl->eof = true; }
		cl->wr_fail_after_close = how != "fin" && plan.hdr.getb("epipe");
		// input that the daemon has not read yet is still processed after a hang-up; with a write path that fails at once the peer's own requests would be carried out
		// half way (profile c11x explores that with the ledger only): here the writes to such a peer are accepted and vanish, as after a FIN
		if (how == "hup" && (cl->rx_off < cl->rx.size() || cl->chunks_queued > 0)) cl->wr_fail_after_close = false;
		// a peer that is gone answers the next segment with a reset: the first few writes are still accepted, later ones fail with EPIPE
		if (op.a.has("epipe_after")) { cl->wr_fail_after_close = true; cl->wr_ok_left = (int)op.a.geti("epipe_after", 0); }
		if (how != "fin" || op.a.has("epipe_after")) { cl->faulty = true; cl->expq.clear(); } // the client cannot observe anything any more
		probe("client_close:" + how);
		if (cl->accepted) { KFd *kk = g_kernel.get(cl->fd); if (kk) g_kernel.mark_pending(*kk); }
		return;
	}
	if (k == "stall" || k == "drain" || k == "wcap" || k == "wboundary" || (k == "sockerr" && op.a.gets("dir", "r") == "w")) {
		// from here on what this peer receives, and when, is no longer determined by the protocol: it joins the faulty set
		if (!cl->faulty) { cl->faulty = true; cl->expq.clear(); probe("peer_becomes_faulty"); }
	}
	if (k == "stall") {
		bool was0 = cl->space == 0;
		cl->space = (int64_t)op.a.getd("n", 0); probe("fault:stall");
		if (was0 && cl->space != 0 && cl->accepted) { KFd *kk = g_kernel.get(cl->fd); if (kk) g_kernel.mark_pending(*kk); cl->blocked = false; probe("writable_again"); }
		return;
	}
	if (k == "drain" || k == "resume") {
		bool was0 = cl->space == 0;
		if (k == "resume") cl->space = -1; else if (cl->space >= 0) cl->space += (int64_t)op.a.getd("n", 1);
		if (was0 && cl->space != 0 && cl->accepted) { KFd *kk = g_kernel.get(cl->fd); if (kk) g_kernel.mark_pending(*kk); cl->blocked = false; probe("writable_again"); }
		return;
	}
	if (k == "wcap") { cl->wcap = (size_t)op.a.getd("n", 0); return; }
	if (k == "wboundary") { cl->wboundary = op.a.getb("on", true); return; }
	if (k == "rdcap") { cl->rdcap = (size_t)op.a.getd("n", 0); return; }
	if (k == "sockerr") {
		if (op.a.gets("dir", "r") == "w") cl->wr_err = (int)op.a.geti("errno", EPIPE);
		else { cl->rx_err = (int)op.a.geti("errno", ECONNRESET); if (cl->accepted) { KFd *kk = g_kernel.get(cl->fd); if (kk) g_kernel.mark_pending(*kk); } }
		cl->client_closed = true; cl->wr_fail_after_close = true;
		probe("fault:sockerr");
		return;
	}
	if (k == "c19") { c19_send(*cl, op); return; }
	if (k == "policy") { for (auto &kv : op.a.o) { bool rep = false; for (auto &x : cl->policy.o) if (x.first == kv.first) { x.second = kv.second; rep = true; } if (!rep) cl->policy.set(kv.first, kv.second); } return; }
}

// ------------------------------------------------------------------ quiescent points and end-of-plan phases
void World::quiescent_point() {
	if (!started) return;
	if (get_number_of_peers_fn()) {
		int open = 0; for (auto &c : clients) if (c.accepted && !c.daemon_closed) open++;
		int np = get_number_of_peers_fn()();
		if (np > base_peers + open) violation(plan.hdr.gets("baseprop", "C07"), "orphan-peer", "the daemon counts " + std::to_string(np) + " peers while only " + std::to_string(open) + " connections are open");
	}
	c10_quiescent();
	c19_quiescent();
	// "the daemon keeps accepting and serving connections": a connection waits in the queue of a listening socket, no accept failure is pending or lasting, nothing else is
	// going to happen - and the daemon sleeps
	if (q.empty()) for (auto &kf : g_kernel.fds) {
		if (kf.kind != FD_LISTEN || !kf.open || !kf.in_epoll || kf.backlog.empty() || kf.lasting_accept_failure || kf.ep_pending) continue;
		bool waiting = false; for (int ci : kf.backlog) if (ci >= 0 && ci < (int)clients.size() && !clients[(size_t)ci].client_closed) waiting = true;
		bool marker = false; for (int ci : kf.backlog) if (ci < 0) marker = true;
		if (waiting && !marker) violation("C11", "connection-left-in-accept-queue", "a connection is waiting in the queue of a listening socket, the event loop is idle and will not be woken for it: after an accept() that failed for lack of descriptors or memory the daemon returned without any means of trying again");
	}
	// bounded liveness of the upgrade: the daemon has read the whole (valid, default) upgrade request of a client that is still there, nothing else is going
	// to happen, and yet it has written nothing: what it does with the bytes it has must not wait for further bytes to arrive (C09: a function of the bytes alone)
	if (q.empty()) for (auto &c : clients) {
		if (c.transport != "ws" || !c.hs_sent || c.hs_ok || !c.policy.has("wskey") || c.policy.has("expect_http") || c.policy.getb("c19")) continue;
		if (!c.accepted || c.daemon_closed || c.client_closed || c.faulty || c.no_expect || !c.out.empty() || c.space == 0 || c.rx_off < c.rx.size() || c.chunks_queued > 0) continue;
		violation(plan.hdr.gets("canary_prop", "C12"), "upgrade-request-read-but-not-answered", "connection c" + std::to_string(c.idx) + ": the daemon has read the complete upgrade request, the event loop is idle, and neither 101 nor an error has been written");
	}
	for (auto &c : clients) {
		if (c.policy.gets("expect_http") == "reject" && c.hs_sent && c.accepted && !c.daemon_closed && !c.http_err_seen)
			violation("C13", "invalid-request-not-answered", "a complete request that is not a valid upgrade (" + c.policy.gets("defect") + ") was neither answered with an error status nor closed");
		if (c.policy.has("must_be_dropped") && c.accepted && !c.daemon_closed && q.empty())
			violation("C09", "oversize-not-refused", "connection c" + std::to_string(c.idx) + " announced a message above the configured maximum (" + c.policy.gets("must_be_dropped") + ") and is still open");
		if (c.policy.getb("may_process_frag") && c.accepted && !c.daemon_closed && !c.client_closed && c.space < 0 && !res.inconclusive) { res.inconclusive = true; res.inconclusive_why = "daemon accepted a fragmented data message (reassembly is not modelled)"; finish(0); bail(); }
	}
	if (mode == "exact") {
		flush_pending();
		check_queues_empty("at a quiescent point of the event loop");
		check_replicas();
		model.check_deadlines(now, false);
		res.st.state_fps.insert(model.fingerprint());
	} else {
		Hasher h; int open = 0, ws = 0; for (auto &c : clients) if (c.accepted && !c.daemon_closed) { open++; if (c.od.ws) ws++; }
		int timers = 0; for (auto &k : g_kernel.fds) if (k.open && k.kind == FD_TIMER) timers++;
		h.u64(open); h.u64(ws); h.u64(std::min(timers, 4)); res.st.state_fps.insert(h.h);
	}
}

static const char *CANARY_PATH = "canary/\xc3\xa9l\xc3\xa9ment";

bool World::next_phase() {
	// called with an empty event queue and nothing pending. returns true when SIGTERM has just been delivered.
	for (;;) {
		switch (phase) {
		case 0: phase = 1; continue;
		case 1: {
			// plan finished and drained
			if (mode == "ledger") {
				for (auto &cl : clients) {
					if (cl.no_expect || cl.faulty || cl.closing || cl.daemon_closed || cl.policy.getb("maydrop")) continue;
					for (auto &kv : cl.ledger) if (kv.second > 0 && !(fault_turn >= 0 && cl.ledger_turn[kv.first] <= fault_turn))
						violation(plan.hdr.gets("ledgerprop", "C02"), "missing-response", "request id " + kv.first.substr(1) + " on c" + std::to_string(cl.idx) + " was never answered although the connection stayed open and every deadline has passed");
				}
			}
			if (mode == "exact") model.check_deadlines(now, true);
			if (plan.hdr.has("reload") && !reload_checked) {
				// C20: a fresh daemon was started on a credential-file image; which (user, password) pairs authenticate must be one of the allowed sets
				reload_checked = true;
				const JV &rl = *plan.hdr.get("reload");
				std::map<std::string, bool> ok;
				if (!clients.empty()) {
					std::vector<Frame> fr; OutDec d; d.feed(clients[0].out.data(), clients[0].out.size(), fr);
					for (auto &f : fr) if (f.t == Frame::JSON && f.j.has("id")) ok[f.j.gets("id")] = f.j.has("result");
				}
				const JV *probes = rl.get("probes"), *allowed = rl.get("allowed");
				std::string got; std::vector<bool> v;
				if (probes) for (size_t i = 0; i < probes->a.size(); i++) { auto it = ok.find("p" + std::to_string(i)); bool b = it != ok.end() && it->second; v.push_back(b); got += b ? '1' : '0'; if (it == ok.end()) got.back() = '?'; }
				bool match = false; std::string want;
				if (allowed) for (auto &a : allowed->a) { std::string w; bool m = a.a.size() == v.size(); for (size_t i = 0; i < a.a.size(); i++) { w += a.a[i].b ? '1' : '0'; if (m && a.a[i].b != v[i]) m = false; } if (m) match = true; want += (want.empty() ? "" : " or ") + w; }
				probe(match ? "reload_ok" : "reload_mismatch");
				if (!match) {
					std::string who; if (probes) for (size_t i = 0; i < probes->a.size(); i++) who += (i ? ", " : "") + probes->a[i].gets("user") + "/" + probes->a[i].gets("password").substr(0, 8) + "..";
					violation("C20", rl.gets("rule", "file-neither-old-nor-new"), rl.gets("what") + ": a fresh daemon started on this file image accepts the (user/password) probes [" + who + "] as " + got + ", allowed: " + want);
				}
			}
			if (shadow_send_probe()) return false;
			if (end_mode == 1) { phase = 5; continue; }
			bool serial = plan.hdr.getb("end_close_serial");
			if (!serial) phase = 2;
			bool any = false;
			for (auto &cl : clients) if (cl.connected && !cl.daemon_closed && !(cl.eof || cl.hup || cl.rx_err)) {
				if (serial && any) break;      // one connection at a time: the order in which connections end is part of the input
				cl.client_closed = true; cl.eof = true; any = true;
				if (cl.space >= 0) { cl.space = -1; }
				if (cl.accepted) { KFd *kk = g_kernel.get(cl.fd); if (kk) g_kernel.mark_pending(*kk); }
			}
			if (any) return false;
			phase = 2;
			continue; }
		case 2: {
			// all clients asked to close; everything drained
			for (auto &cl : clients) if (cl.accepted && !cl.daemon_closed)
				violation("C05", "connection-not-released", "connection c" + std::to_string(cl.idx) + " (" + cl.transport + ") ended but the daemon never released it");
			check_idle_baseline();
			phase = 3;
			if (!canary_enabled) { phase = 5; continue; }
			// canary: a fresh client must be served completely
			Client c; c.idx = (int)clients.size(); c.is_canary = true; c.no_expect = true;
			c.transport = (plan.seed & 1) ? "ws" : "raw"; c.origin_ip = "127.0.0.1"; c.origin_local = true;
			c.in.ws = c.od.ws = c.transport == "ws"; c.in.maxmsg = g_variant.max_message;
			KFd *l = find_listener(c.transport, c.origin_ip);
			clients.push_back(c);
			Client &cc = clients.back();
			if (!l) { violation(plan.hdr.gets("canary_prop", "C11"), "daemon-not-accepting", "no listening endpoint is registered any more"); }
			cc.connected = true; l->backlog.push_back(cc.idx); g_kernel.mark_pending(*l);
			canary_turn = (long)res.st.batches;
			std::string all;
			if (cc.od.ws) all += ws_handshake(plan.hdr.gets("target", "/api/jet/"), "Y2FuYXJ5Y2FuYXJ5Y2FuYQ==");
			auto enc = [&](const std::string &s) { return cc.od.ws ? ws_frame(1, s, true, true, 0xA1B2C3D4) : raw_frame(s); };
			std::string P = json_escape(CANARY_PATH);
			all += enc("{\"id\":\"cn1\",\"method\":\"add\",\"params\":{\"path\":\"" + P + "\",\"value\":1}}");
			all += enc("{\"id\":\"cn2\",\"method\":\"fetch\",\"params\":{\"id\":\"cf\",\"path\":{\"equals\":\"" + P + "\"}}}");
			all += enc("{\"id\":\"cn3\",\"method\":\"change\",\"params\":{\"path\":\"" + P + "\",\"value\":2}}");
			all += enc("{\"id\":\"cn4\",\"method\":\"get\",\"params\":{\"path\":{\"equals\":\"" + P + "\"}}}");
			all += enc("{\"id\":\"cn5\",\"method\":\"remove\",\"params\":{\"path\":\"" + P + "\"}}");
			deliver_bytes(cc, all);
			return false; }
		case 3: {
			// evaluate the canary
			Client *cn = nullptr; for (auto &c : clients) if (c.is_canary) cn = &c;
			if (cn && fault_turn >= canary_turn && canary_turn >= 0) {
				// the injected fault hit the canary's own requests: what it shows is the fault, not the daemon's ability to serve
				probe("canary_hit_by_fault");
				phase = 4;
				if (!cn->client_closed) { cn->client_closed = true; cn->eof = true; KFd *kk = g_kernel.get(cn->fd); if (kk) g_kernel.mark_pending(*kk); return false; }
				continue;
			}
			if (cn) {
				std::vector<Frame> fr; OutDec d; d.ws = cn->od.ws; d.feed(cn->out.data(), cn->out.size(), fr);
				std::vector<std::string> seen;
				for (auto &f : fr) {
					if (f.t == Frame::HTTP) { seen.push_back("http" + std::to_string(f.http_status)); continue; }
					if (f.t != Frame::JSON) { seen.push_back("?"); continue; }
					if (f.j.has("result")) seen.push_back("ok:" + f.j.gets("id") + (f.j.gets("id") == "cn4" ? ":" + f.j.get("result")->dump() : ""));
					else if (f.j.has("error")) seen.push_back("err:" + f.j.gets("id"));
					else if (f.j.has("method")) { const JV *p = f.j.get("params"); seen.push_back("n:" + (p ? p->gets("event") + ":" + (p->get("value") ? p->get("value")->dump() : std::string("-")) : std::string("?"))); }
				}
				std::string got; for (auto &s : seen) got += s + " ";
				std::string P = json_escape(CANARY_PATH);
				std::vector<std::string> need = {"ok:cn1", "n:add:1", "ok:cn2", "n:change:2", "ok:cn3", "ok:cn4:[{\"path\":\"" + P + "\",\"value\":2}]", "ok:cn5"};
				// with a credential file loaded an unauthenticated peer holds no groups: it is served, but sees nothing
				bool blind = model.have_creds;
				if (blind) need = {"ok:cn1", "ok:cn2", "ok:cn3", "ok:cn4:[]", "ok:cn5"};
				// order-insensitive between a notification and the response of the same request
				std::multiset<std::string> have(seen.begin(), seen.end());
				bool ok = true;
				for (auto &n : need) { auto it = have.find(n); if (it == have.end()) ok = false; else have.erase(it); }
				bool rem = false; for (auto &s : seen) if (s.rfind("n:remove", 0) == 0) rem = true;
				if (rem == blind) ok = false;
				if (cn->od.ws && (seen.empty() || seen[0] != "http101")) ok = false;
				if (!ok) violation(plan.hdr.gets("canary_prop", "C11"), "daemon-not-serving", "after the plan a fresh " + cn->transport + " client was not served correctly; it saw: " + got);
				canary_ok = true; probe("canary_ok");
				phase = 4;
				if (!cn->client_closed) { cn->client_closed = true; cn->eof = true; KFd *kk = g_kernel.get(cn->fd); if (kk) g_kernel.mark_pending(*kk); return false; }
			}
			phase = 4; continue; }
		case 4:
			for (auto &cl : clients) if (cl.accepted && !cl.daemon_closed)
				violation("C05", "connection-not-released", "connection c" + std::to_string(cl.idx) + " ended but the daemon never released it");
			check_idle_baseline();
			phase = 5; continue;
		case 5:
			phase = 6; begin_termination(); probe(end_mode == 1 ? "sigterm_with_clients" : "sigterm_idle");
			if (g_kernel.sigterm_handler) g_kernel.sigterm_handler(15);
			else violation("C07", "no-sigterm-handler", "daemon has no SIGTERM handler installed while serving");
			return true;
		default:
			return true;
		}
	}
}

void World::begin_termination() {
	// from here on the daemon tears everything down in an order of its choosing; only safety and the exit state are checked
	sigterm_sent = true;
	if (mode == "exact") { flush_pending(); check_queues_empty("before the termination signal"); }
	for (auto &cl : clients) { cl.no_expect = true; cl.expq.clear(); }
	mode = "none";
}

void World::finish(int exit_status) {
	if (done) return;
	done = true;
	res.exit_status = exit_status;
	res.trace_hash = trace.h;
	res.st.allocs = g_arena.nallocs;
	res.st.vtime_ns = now;
	JV ex = JV::obj();
	ex.set("peak_live_bytes", JV::num((double)g_arena.peak_live));
	ex.set("clients", JV::num((double)clients.size()));
	ex.set("fs_calls", JV::num((double)g_kernel.fs_calls));
	if (g_arena.exhausted) { res.inconclusive = true; res.inconclusive_why = "arena exhausted"; }
	if (plan.hdr.getb("want_filelog")) {
		JV fl = JV::arr();
		for (auto &e : g_kernel.file_log) {
			JV o = JV::obj(); o.set("op", JV::str(e.op)); o.set("change", JV::num(e.change)); o.set("call", JV::num(e.call));
			o.set("exists", JV::boolean(e.exists)); o.set("image", JV::str(hexenc(e.image)));
			o.set("dur_exists", JV::boolean(e.dur_exists)); o.set("dur_image", JV::str(hexenc(e.dur_image)));
			JV t = JV::arr(); for (auto &x : e.torn) t.push(JV::str(hexenc(x))); o.set("torn", t);
			fl.push(o);
		}
		ex.set("file_log", fl);
		JV ch = JV::arr(); for (auto &c : pw_changes) ch.push(c); ex.set("changes", ch);
		ex.set("fs_fault_fired", JV::boolean(g_kernel.fs_fault_fired));
	}
	if (plan.hdr.getb("want_out")) {
		JV outs = JV::arr();
		for (auto &c : clients) { JV o = JV::obj(); o.set("c", JV::num(c.idx)); o.set("out", JV::str(hexenc(c.out))); o.set("closed", JV::boolean(c.daemon_closed)); outs.push(o); }
		ex.set("outs", outs);
	}
	if (plan.hdr.getb("want_logs")) { JV l = JV::arr(); for (auto &s : logs) l.push(JV::str(s)); ex.set("logs", l); }
	res.extra = ex;
}

// coverage builds only (CJETSIM_COV=1 in bin/simbuild.py): the profile is merged into one file per binary when a run ends
extern "C" int __llvm_profile_write_file(void) __attribute__((weak));
extern "C" void __llvm_profile_set_filename(const char *) __attribute__((weak));

void World::bail() {
	if (__llvm_profile_write_file) { if (__llvm_profile_set_filename) __llvm_profile_set_filename("/tmp/cjetcov/%8m.profraw"); __llvm_profile_write_file(); }
	std::string s = res.to_json().dump();
	s += "\n";
	size_t off = 0;
	while (off < s.size()) { ssize_t n = write(g_result_fd, s.data() + off, s.size() - off); if (n <= 0) break; off += (size_t)n; }
	_exit(0);
}

// ------------------------------------------------------------------ setup
void World::setup_from_header() {
	const JV &h = plan.hdr;
	mode = h.gets("mode", "exact");
	debug = h.getb("debug") || getenv("CJETSIM_DEBUG");
	g_arena.fill_mode = (uint64_t)h.getd("fill", 0);
	g_arena.fill_state = mix64(plan.seed, 0xF111) | 1;
	g_arena.reuse = h.has("arena_reuse") ? h.getb("arena_reuse") : (mix64(plan.seed, 0xA7E4A) % 4 == 0);   // a quarter of the runs recycle freed blocks
	if (g_arena.reuse) probe("arena_recycles_freed_blocks");
	g_kernel.urandom_state = mix64(plan.seed, 0x7A9D) | 1;
	g_kernel.fds.reserve(16384);
	g_kernel.fd_base = 1000 + (int)(mix64(plan.seed, 0xFD) % 500);
	canary_enabled = h.getb("canary", true);
	end_mode = h.gets("end", "close") == "sigterm" ? 1 : 0;
	batch_shuffle_p = h.getd("shuffle", 0.0);
	wsstrict = h.getb("wsstrict");
	step_cap = (uint64_t)h.getd("step_cap", 200000);
	const JV *af = h.get("allocfail"); if (af && af->t == JV::Arr) for (auto &x : af->a) g_arena.fail_at.insert((uint64_t)x.d);
	shadow_enabled = mode == "exact" && h.getb("shadow", !g_arena.fail_at.empty() || h.has("allocfail_rel"));
	startup_fail_at = (int)h.getd("startup_fail", 0);
	const JV *sa = h.get("alloc_stack_at"); if (sa && sa->t == JV::Arr) for (auto &x : sa->a) g_arena.stack_at.insert((uint64_t)x.d);
	if (debug && af && af->t == JV::Arr) for (auto &x : af->a) g_arena.stack_at.insert((uint64_t)x.d);
	const JV *te = h.get("timerfd_errs"); if (te && te->t == JV::Arr) for (auto &x : te->a) g_kernel.timerfd_create_errs.push_back((int)x.d);
	g_kernel.fs_fault_at = (int)h.getd("fs_fault_at", -1); g_kernel.fs_fault_kind = h.gets("fs_fault_kind"); g_kernel.fs_fault_arg = (long)h.getd("fs_fault_arg", 0);
	model.host = this; model.max_matchers = g_variant.max_matchers; model.add_local_only = g_variant.add_local_only; model.default_timeout_s = g_variant.routed_timeout;
	model.passwd_may_fail = g_kernel.fs_fault_at > 0;
	model.notify_prop = h.gets("notify_prop", "C01"); model.faulty_add_either = h.gets("relabel") == "C11";
	model.allow_either_add = true; model.allow_either_route = true; model.route_may_fail = h.getb("route_may_fail");
	const JV *cr = h.get("creds");
	if (cr && cr->t == JV::Obj) {
		g_kernel.file_path = cr->gets("path", "/etc/cjet/passwd.json");
		std::string &file_data = g_kernel.files[g_kernel.file_path];
		if (cr->has("rawhex")) file_data = hexdec(cr->gets("rawhex"));
		else {
			JV users = JV::obj();
			const JV *us = cr->get("users");
			if (us) for (auto &kv : us->o) {
				const JV &u = kv.second; JV o = JV::obj();
				Model::User mu;
				if (u.getb("readonly")) { o.set("readonly", JV::boolean(true)); mu.readonly = true; }
				if (u.getb("admin")) { o.set("admin", JV::boolean(true)); mu.admin = true; }
				if (u.has("password")) {
					std::string pw = u.gets("password"); mu.password = pw; secrets.push_back(pw);
					std::string hs = u.gets("hash", "des"); std::string salt;
					static const char *sc = "abcdefghijklmnopqrstuvwxyzABCDEFGHIJKLMNOPQRSTUVWXYZ0123456789./";
					uint64_t r = mix64(plan.seed, std::hash<std::string>()(kv.first));
					auto sch = [&](int n) { std::string s; for (int i = 0; i < n; i++) { s += sc[r % 64]; r = mix64(r, i); } return s; };
					if (hs == "md5") salt = "$1$" + sch(8) + "$"; else if (hs == "sha256") salt = "$5$" + sch(8) + "$"; else if (hs == "sha512") salt = "$6$" + sch(8) + "$"; else salt = sch(2);
					const char *enc = crypt(pw.c_str(), salt.c_str());
					o.set("password", JV::str(enc ? enc : "*"));
					if (u.has("locked")) {
						// no password authenticates against this entry (the generator never uses the value of "password" of such a user)
						std::string lk = u.gets("locked");
						o.put("password", JV::str(lk == "salt" ? salt : lk));
						mu.password = std::string("\x01no password matches\x01") + kv.first;
					}
				} else mu.has_password = false;
				if (!u.getb("noauth")) {
					JV auth = JV::obj();
					for (const char *g : {"fetchGroups", "setGroups", "callGroups"}) {
						const JV *arr = u.get(g); JV a = JV::arr();
						if (!arr && u.getb("sparse")) continue;      // the user has no member for this kind of right at all
						if (arr && arr->t == JV::Arr) for (auto &x : arr->a) { a.push(x); if (x.t == JV::Str) { model.all_groups.insert(x.s); (strcmp(g, "fetchGroups") == 0 ? mu.fg : strcmp(g, "setGroups") == 0 ? mu.sg : mu.cg).insert(x.s); } }
						auth.set(g, a);
					}
					o.set("auth", auth);
				} else mu.has_auth = false;
				users.set(kv.first, o);
				model.users[kv.first] = mu;
			}
			if (model.all_groups.size() >= 32) probe("credential_file_with_32_groups");
		JV root = JV::obj(); root.set("users", users);
			file_data = root.dump();
			size_t pad = (size_t)cr->getd("pad_to", 0);
			if (pad > file_data.size()) file_data.insert(file_data.size() - 1, std::string(pad - file_data.size(), ' '));
		}
		model.have_creds = true;
		g_kernel.dur[g_kernel.file_path] = file_data;
		{ FileLogEntry e; e.op = "initial"; e.exists = e.dur_exists = true; e.image = e.dur_image = file_data; g_kernel.file_log.push_back(e); }
		if (cr->getb("absent")) { g_kernel.files.erase(g_kernel.file_path); g_kernel.dur.erase(g_kernel.file_path); }
	}
}

extern "C" int cjet_main(int argc, char **argv);

[[noreturn]] void run_plan_child(const Plan &p, int result_fd) {
	g_result_fd = result_fd;
	g_arena.init();
	W = new World();
	W->plan = p; W->rng.reseed(p.seed);
	W->setup_from_header();
	g_hooks = W;
	std::vector<std::string> args = {"cjet"};
	const JV *av = p.hdr.get("argv");
	if (av && av->t == JV::Arr) for (auto &x : av->a) args.push_back(x.s); else args.push_back("-f");
	std::vector<char *> argv; for (auto &s : args) argv.push_back((char *)s.c_str()); argv.push_back(nullptr);
	W->in_daemon = true;
	int rc = cjet_main((int)args.size(), argv.data());
	W->in_daemon = false;
	W->probe(std::string("main_returned:") + std::to_string(rc));
	std::string expect_exit = p.hdr.gets("expect_exit", "ok");
	if (!W->sigterm_sent) {
		if (p.hdr.has("reload") && !W->started) W->violation("C20", "file-not-loadable", p.hdr.get("reload")->gets("what") + ": a fresh daemon cannot start on this file image (exit " + std::to_string(rc) + "); last log: " + (W->logs.empty() ? std::string("-") : W->logs.back()));
		if (expect_exit == "fail" || expect_exit == "any") {
			if (rc == 0 && expect_exit == "fail") W->violation(p.hdr.gets("canary_prop", "C07"), "startup-failure-ignored", "main() returned success although start-up could not complete");
			W->check_exit(); W->finish(rc); W->bail();
		}
		if (!W->started) {
			if (g_arena.fail_at.empty() && g_kernel.timerfd_create_errs.empty() && W->startup_fail_at == 0) W->violation("C07", "startup-failed", "daemon failed to start (exit " + std::to_string(rc) + ")");
			// start-up under an injected fault: a clean non-zero exit is the required outcome
			if (rc == 0) W->violation(W->startup_fail_at ? "C07" : "C15", "startup-failure-ignored", "main() returned success although start-up could not complete");
			W->probe("startup_failed_cleanly");
			W->check_exit(); W->finish(rc); W->bail();
		}
		W->violation(p.hdr.gets("canary_prop", "C11"), "daemon-exited", "the daemon left its event loop and main() returned " + std::to_string(rc) + " without a termination signal; last log: " + (W->logs.empty() ? std::string("-") : W->logs.back()));
	}
	if (rc != 0) W->violation("C07", "unclean-exit", "main() returned " + std::to_string(rc) + " after a termination signal");
	for (auto &cl : W->clients) if (cl.accepted && !cl.daemon_closed) W->violation("C07", "connection-open-at-exit", "a client connection was not closed by the termination sequence");
	W->check_exit();
	W->finish(rc);
	W->bail();
}
