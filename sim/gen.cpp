// Seeded plan generator. One run seed -> swarm configuration -> plan. Residual choices use per-op substreams.
#include "world.h"
#include <cstring>
#include <cstdio>
#include <cmath>
#include <algorithm>

// the daemon's path hash (sdbm over the bytes as plain chars, then a 32-bit mix, top `order` bits), copied so that colliding paths can be built on purpose
static uint32_t jet_path_hash(const std::string &s, int order) {
	uint32_t hash = 0;
	for (char ch : s) { uint32_t c = (uint32_t)(int)ch; hash = ((c + (hash << 6U)) + (hash << 16U)) - hash; }
	uint32_t key = hash;
	key = (key ^ 61) ^ (key >> 16); key = key + (key << 3); key = key ^ (key >> 4); key = key * 0x27d4eb2d; key = key ^ (key >> 15);
	return order >= 32 ? key : (key >> (32 - order));
}
// `count` paths for each of the buckets first .. first+span-1 (wrapping) of a table of 2^order slots
static std::vector<std::string> paths_for_buckets(int order, uint32_t first, int span, int count, const std::string &prefix) {
	uint32_t size = 1u << order; std::vector<std::vector<std::string>> got((size_t)span);
	size_t need = (size_t)span * (size_t)count, have = 0;
	for (uint32_t n = 0; n < 4000000 && have < need; n++) {
		std::string p = prefix + std::to_string(n);
		uint32_t b = jet_path_hash(p, order);
		uint32_t d = (b + size - first) & (size - 1);
		if (d < (uint32_t)span && (int)got[d].size() < count) { got[d].push_back(p); have++; }
	}
	std::vector<std::string> out; for (int k = 0; k < count; k++) for (auto &g : got) if ((int)g.size() > k) out.push_back(g[(size_t)k]);
	return out;
}

namespace {

struct GClient { int c; std::string tr; bool alive = true; std::vector<JV> fetch_ids; bool owner_like = false; bool authed = false; };

struct Gen {
	double p_exact_size = 0.04; size_t elems_hint = 0; double p_nul = 0.004; std::map<std::string, double> last_num; bool long_ids = false;
	Rng r; Plan p; uint64_t uid = 0; int next_client = 0; uint64_t idctr = 0, valctr = 0;
	std::vector<GClient> cl;
	std::vector<std::string> paths;
	std::map<std::string, int> owner_of;      // best-effort tracking of who added what
	std::map<std::string, bool> is_state;
	// swarm configuration
	std::map<std::string, double> w;          // op weights
	double p_hold = 0, p_seg = 0, p_noid = 0.1, p_numid = 0.3, p_batch = 0.05, p_ws = 0.3, p_uds = 0.1;
	std::vector<double> dt_w;                 // weights over dt classes
	int seg_style = 0;                        // 0 whole 1 random chunks 2 bytewise
	bool creds = false; std::vector<std::string> user_names; std::map<std::string, std::string> user_pw;
	std::vector<std::string> groups;
	std::map<std::string, std::map<std::string, std::vector<std::string>>> user_rights;   // user -> kind -> groups (kind absent: the user has no such member)
	bool allow_rst = true;
	int max_clients = 6;
	double p_timeout_param = 0.15;
	std::vector<double> delay_w;              // owner reply delay classes
	std::string profile;
	double p_adv_rule = 0;                    // c16: adversarial rule shapes (refused ones included)
	double p_conn_fault = 0;                  // a new connection that cannot be configured or registered (failing fcntl/setsockopt/epoll_ctl): it must cost nothing but itself
	double p_fat = 0;                         // heap-cap runs: values that cost the daemon kilobytes (arrays of many small numbers)

	explicit Gen(uint64_t seed) : r(seed) {}

	Op mk(const std::string &k, int c = -1) { Op o; o.k = k; o.c = c; o.uid = ++uid; return o; }
	uint64_t pick_dt() {
		static const uint64_t cls[] = {0, 1000, 50000, 1000000, 100000000ULL, 1000000000ULL, 4999000000ULL, 5000000000ULL, 5001000000ULL, 12000000000ULL};
		size_t i = r.weighted(dt_w);
		uint64_t v = cls[i];
		if (i >= 1 && i <= 5 && r.chance(0.5)) v = v / 2 + r.below(v);
		return v;
	}
	// a number that differs from n, but not in what a conversion to int keeps
	JV near_num(double n) {
		if (n >= 2147483647.0) return JV::num(n + 1 + (double)r.below(3));
		double fl = (double)(long long)n;
		if (n != fl) return JV::num(r.chance(0.5) ? fl : fl + (n - fl > 0.5 ? 0.25 : 0.75));
		return JV::num(n + (r.chance(0.5) ? 0.5 : 0.25));
	}
	JV next_id() {
		idctr++;
		// some plans use long request ids throughout: ids that share their first 60-odd characters, now and then one that nearly fills the message
		if (long_ids) { size_t L = r.chance(0.1) && g_variant.max_message >= 512 ? 330 + r.below(60) : 62 + r.below(12); return JV::str(std::string(L, 'q') + std::to_string(idctr)); }
		if (r.chance(p_nul)) return JV::str(std::string("r") + std::to_string(idctr) + '\0' + "x");
		if (r.chance(p_numid)) return r.chance(0.05) ? JV::num(9007199254740000.0 + (double)idctr) : JV::num((double)(1000 + idctr));
		return JV::str("r" + std::to_string(idctr));
	}
	JV fresh_value() {
		valctr++;
		if (p_fat > 0 && r.chance(p_fat)) {
			size_t room = g_variant.max_message > 260 ? (size_t)g_variant.max_message - 200 : 60;
			size_t n = 8 + r.below(room / 2 - 8);
			JV a = JV::arr(); a.push(JV::num((double)valctr)); for (size_t i = 1; i < n; i++) a.push(JV::num((double)(i % 10)));
			return a;
		}
		if (r.chance(p_nul)) return JV::str(std::string("nul") + '\0' + "inside" + std::to_string(valctr));   // an escaped NUL inside a string
		// numbers that a conversion to int cannot tell apart (all in [7,8), or all beyond INT_MAX): still different values
		if (r.chance(0.12)) return JV::num(r.chance(0.7) ? 7.0 + (double)(valctr % 1021) / 1024.0 : 3000000000.0 + (double)valctr);
		// integers with 16 digits (below 2^53, so every one of them is a double): neighbours differ in the last digit only
		if (r.chance(0.04)) return JV::num((r.chance(0.5) ? 9007199254740000.0 : 4503599627370400.0) + (double)(valctr % 900));
		switch (r.below(8)) {
		case 0: return JV::num((double)valctr);
		case 1: return JV::str("s" + std::to_string(valctr));
		case 2: { JV o = JV::obj(); o.set("v", JV::num((double)valctr)); o.set("t", JV::str("\xc3\xbc-" + std::to_string(valctr))); return o; }
		case 3: { JV a = JV::arr(); a.push(JV::num((double)valctr)); a.push(JV::null()); a.push(JV::boolean(true)); return a; }
		case 4: return JV::num((double)valctr + 0.5);
		case 5: { JV o = JV::obj(); JV in = JV::obj(); in.set("deep", JV::arr().push(JV::num((double)valctr))); o.set("n", in); return o; }
		case 6: return JV::str("quote\"back\\slash\n" + std::to_string(valctr));
		default: return JV::num(-(double)valctr);
		}
	}
	JV seg_for(size_t len) {
		if (seg_style == 0 || !r.chance(p_seg)) return JV();
		if (seg_style == 2 && len <= 200) return JV::str("bytewise");
		JV a = JV::arr(); size_t off = 0; int n = 0;
		while (off < len && n < 12) { size_t c = 1 + r.below(r.chance(0.3) ? 4 : std::max<size_t>(2, len / 2)); a.push(JV::num((double)c)); off += c; n++; }
		return a;
	}
	void finish_send(Op &o) {
		size_t len = o.a.has("msg") ? o.a.get("msg")->dump().size() + 8 : 64;
		JV s = seg_for(len);
		if (s.t != JV::Null) { o.a.set("seg", s); o.a.set("gap", JV::num((double)(r.chance(0.5) ? 0 : (r.chance(0.5) ? 1000 : 200000)))); }
		o.dt = pick_dt(); o.hold = r.chance(p_hold);
	}
	JV request(const std::string &method, const JV &params, bool allow_noid = true) {
		JV q = JV::obj();
		if (!(allow_noid && r.chance(p_noid))) q.set("id", next_id());
		q.set("method", JV::str(method));
		q.set("params", params);
		return q;
	}
	GClient *alive_client() {
		std::vector<int> ix; for (size_t i = 0; i < cl.size(); i++) if (cl[i].alive) ix.push_back((int)i);
		if (ix.empty()) return nullptr;
		return &cl[ix[r.below(ix.size())]];
	}
	std::string pick_path() { return paths[r.below(paths.size())]; }
	std::string existing_path(bool want_state, bool any) {
		std::vector<std::string> c; for (auto &kv : owner_of) if (any || is_state[kv.first] == want_state) c.push_back(kv.first);
		if (c.empty() || r.chance(0.1)) return pick_path();
		return c[r.below(c.size())];
	}
	// two or three substrings of one path that all occur in it: in reverse order of occurrence, or overlapping each other
	std::vector<std::string> parts_of(const std::string &b) {
		std::vector<std::string> v;
		size_t m = 1 + r.below(b.size() - 1);
		if (r.chance(0.5)) { v.push_back(b.substr(m)); v.push_back(b.substr(0, m)); if (b.size() >= 3 && r.chance(0.3)) v.push_back(b.substr(m > 1 ? m - 1 : 0, 2)); }
		else { v.push_back(b.substr(0, std::min(b.size(), m + 1))); v.push_back(b.substr(m > 0 ? m - 1 : 0)); if (r.chance(0.5)) std::swap(v[0], v[1]); }
		return v;
	}
	JV rule() {
		// strict rule shapes only (refused ones are generated by the C16 profile)
		JV o = JV::obj();
		int n = 1 + (int)r.below(3);
		static const char *ms[] = {"equals", "equalsNot", "startsWith", "endsWith", "contains", "containsAllOf"};
		for (int i = 0; i < n; i++) {
			const char *m = ms[r.below(6)];
			std::string base = pick_path();
			std::string opnd = base;
			if (!base.empty()) switch (r.below(5)) { case 0: opnd = base.substr(0, 1 + r.below(base.size())); break; case 1: opnd = base.substr(r.below(base.size())); break; case 2: for (auto &ch : opnd) ch = (char)toupper((unsigned char)ch); break; default: break; }
			if (strcmp(m, "containsAllOf") == 0) {
				JV a = JV::arr();
				if (base.size() >= 2 && r.chance(0.4)) { for (auto &pt : parts_of(base)) a.push(JV::str(pt)); }   // parts of one path, not in the order in which they occur in it, or overlapping
				else { a.push(JV::str(opnd)); if (r.chance(0.5)) a.push(JV::str(pick_path().substr(0, 1))); }
				o.set(m, a);
			}
			else o.set(m, JV::str(opnd));
		}
		if (r.chance(0.3)) o.set("caseInsensitive", JV::boolean(r.chance(0.8)));
		return o;
	}

	// operand built around the current paths: empty, equal, proper prefixes/suffixes/infixes, case variants, non-ASCII, longer than the path
	std::string adv_operand() {
		std::string base = pick_path();
		switch (r.below(14)) {
		case 0: return "";
		case 1: return base;
		case 2: return base.empty() ? base : base.substr(0, 1 + r.below(base.size()));
		case 3: return base.empty() ? base : base.substr(r.below(base.size()));
		case 4: { if (base.size() < 2) return base; size_t a = r.below(base.size()); return base.substr(a, 1 + r.below(base.size() - a)); }
		case 5: { std::string o = base; for (auto &ch : o) ch = (char)toupper((unsigned char)ch); return o; }
		case 6: { std::string o = base; for (auto &ch : o) ch = (char)tolower((unsigned char)ch); return o; }
		case 7: { std::string o = base; for (auto &ch : o) if (r.chance(0.5)) ch = isupper((unsigned char)ch) ? (char)tolower((unsigned char)ch) : (char)toupper((unsigned char)ch); return o; }
		case 8: return base + (r.chance(0.5) ? "x" : base);
		case 9: return (r.chance(0.5) ? "x" : "/") + base;
		case 10: { std::string o = base; if (!o.empty()) o[o.size() - 1] = (char)(o[o.size() - 1] ^ 0x20); return o; }
		case 11: { static const char *na[] = {"\xc3\xa9", "\xc3\x89", "\xe2\x82\xac", "\xc3\xa9lan", "\xc3\x89LAN", "p/\xe2\x82"  "\xac"}; return na[r.below(6)]; }
		case 12: { std::string o(base.rbegin(), base.rend()); return o; }
		default: return pick_path();
		}
	}
	JV adv_rule() {
		JV o = JV::obj();
		static const char *ms[] = {"equals", "equalsNot", "startsWith", "endsWith", "contains", "containsAllOf"};
		int maxm = g_variant.max_matchers;
		int n = 1 + (int)r.below(3);
		double x = r.unit();
		if (x < 0.06) n = maxm;                       // exactly the maximum
		else if (x < 0.12) n = maxm + 1 + (int)r.below(2); // more than the maximum: refused
		else if (x < 0.15) n = 0;
		bool ci_first = r.chance(0.5);
		int nci = r.chance(0.45) ? 1 : 0;
		if (r.chance(0.06)) nci = 2;                  // repeated option key
		JV civ = JV::boolean(r.chance(0.75));
		if (r.chance(0.08)) civ = r.chance(0.5) ? JV::num(1) : JV::str("true");   // wrong type: means case-sensitive
		if (ci_first) for (int i = 0; i < nci; i++) o.set("caseInsensitive", civ);
		for (int i = 0; i < n; i++) {
			const char *m = ms[r.below(6)];
			double y = r.unit();
			if (y < 0.04) { static const char *bad[] = {"Equals", "equal", "matches", "startswith", "CaseInsensitive", "containsallof", ""}; o.set(bad[r.below(7)], JV::str(adv_operand())); continue; }
			if (strcmp(m, "containsAllOf") == 0) {
				if (y < 0.08) { o.set(m, JV::str(adv_operand())); continue; }          // wrong operand type
				JV a = JV::arr(); int k = 1 + (int)r.below(3); for (int j = 0; j < k; j++) a.push(y < 0.12 && j == k - 1 ? JV::num(3) : JV::str(adv_operand()));
				if (y > 0.6) { std::string b2 = pick_path(); if (b2.size() >= 2) { a = JV::arr(); for (auto &pt : parts_of(b2)) a.push(JV::str(pt)); } }
				o.set(m, a);
			} else {
				if (y < 0.08) { o.set(m, r.chance(0.5) ? JV::num(1) : (r.chance(0.5) ? JV::arr().push(JV::str("a")) : JV::null())); continue; }
				o.set(m, JV::str(adv_operand()));
			}
		}
		if (!ci_first) for (int i = 0; i < nci; i++) o.set("caseInsensitive", civ);
		if (nci == 2 && n == 0) o.set("equals", JV::str(adv_operand()));
		return o;
	}

	void op_connect(bool force_raw = false) {
		GClient g; g.c = next_client++;
		double x = r.unit();
		g.tr = force_raw ? "raw" : x < p_ws ? "ws" : x < p_ws + p_uds ? "uds" : "raw";
		Op o = mk("connect", g.c);
		o.a.set("tr", JV::str(g.tr));
		{ static const char *ips[] = {"127.0.0.1", "127.0.0.1", "127.0.0.1", "::1", "::1", "192.0.2.7", "127.0.0.2", "2001:db8::1", "::ffff:127.0.0.1", "::ffff:10.1.2.3", "10.127.0.1"};
		  o.a.set("ip", JV::str(ips[r.below(r.chance(0.6) ? 5 : 11)])); }
		if (g.tr == "uds" && r.chance(0.3)) { std::string un(1, '\0'); un += "client-" + std::to_string(g.c); if (r.chance(0.3)) { un = std::string(6, 'x'); un.append(15, '\0'); un += '\1'; } o.a.set("un", JV::str(hexenc(un))); }
		JV pol = JV::obj();
		static const char *modes[] = {"result", "result", "result", "error", "never"};
		pol.set("mode", JV::str(modes[r.below(5)]));
		static const uint64_t dl[] = {0, 1000000, 500000000ULL, 4999000000ULL, 5000000000ULL, 5001000000ULL, 9000000000ULL};
		pol.set("delay", JV::num((double)dl[r.weighted(delay_w)]));
		if (r.chance(0.1)) { pol.set("dup", JV::boolean(true)); pol.set("dupdelay", JV::num(r.chance(0.5) ? 0 : 1000000)); }
		if (r.chance(0.1)) pol.set("forge", JV::boolean(true));
		if (r.chance(0.08)) pol.set("expand", JV::num((double)(20 + r.below(70))));   // results made of numbers that are short on the wire (1e14) and long when printed in full
		o.a.set("policy", pol);
		if (r.chance(0.3)) o.a.set("rdcap", JV::num((double)(1 + r.below(r.chance(0.5) ? 7 : 64))));
		if (p_conn_fault > 0 && r.chance(p_conn_fault)) {
			if (r.chance(0.5)) o.a.set("epolladd", JV::num(r.chance(0.6) ? 28 : 12));
			else { JV cf = JV::obj(); cf.set("n", JV::num((double)(1 + r.below(8)))); static const int er[] = {105, 12, 22, 92}; cf.set("errno", JV::num(er[r.below(4)])); o.a.set("cfgfail", cf); }
			g.alive = false;   // never served: the plan sends nothing on it
		}
		if (g.tr == "ws") { JV s = seg_for(200); if (s.t != JV::Null) o.a.set("seg", s); if (r.chance(0.5)) o.a.set("key", JV::str(b64(std::string("0123456789abcde") + (char)('a' + r.below(26))))); }
		o.dt = pick_dt(); o.hold = r.chance(p_hold);
		p.ops.push_back(o); cl.push_back(g);
	}

	void op_request() {
		GClient *g = alive_client(); if (!g) { op_connect(); return; }
		std::vector<std::string> kinds; std::vector<double> ww;
		for (auto &kv : w) { kinds.push_back(kv.first); ww.push_back(kv.second); }
		std::string k = kinds[r.weighted(ww)];
		Op o = mk("send", g->c);
		JV params = JV::obj(); JV msg;
		if (k == "add") {
			std::string path = pick_path();
			params.set("path", JV::str(path));
			bool state = r.chance(0.7);
			if (state) params.set("value", fresh_value());
			if (state && r.chance(0.1)) params.set("fetchOnly", JV::boolean(r.chance(0.8)));
			if (r.chance(p_timeout_param)) params.set("timeout", JV::num(r.chance(0.2) ? 0.0005 : r.chance(0.3) ? 0.25 : r.chance(0.5) ? 2.0 : r.chance(0.5) ? 0.0307 : 1.2345678));
			if (creds && r.chance(0.8)) {
				JV acc = JV::obj();
				auto grp = [&]() { JV a = JV::arr(); int n = (int)r.below(3); for (int i = 0; i < n; i++) a.push(JV::str(r.chance(0.9) ? groups[r.below(groups.size())] : "nosuchgroup")); return a; };
				acc.set("fetchGroups", grp()); acc.set(state ? "setGroups" : "callGroups", grp());
				params.set("access", acc);
			}
			msg = request("add", params, g_variant.element_order >= 8 && !g_variant.add_local_only);
			if (!owner_of.count(path)) { owner_of[path] = g->c; is_state[path] = state; }
			g->owner_like = true;
		} else if (k == "remove") {
			std::string path = existing_path(true, true);
			params.set("path", JV::str(path)); msg = request("remove", params);
			if (owner_of.count(path) && owner_of[path] == g->c) owner_of.erase(path);
		} else if (k == "change") {
			std::string path = existing_path(true, false);
			// bias towards the owner
			if (owner_of.count(path) && r.chance(0.8)) for (auto &c2 : cl) if (c2.c == owner_of[path] && c2.alive) { g = &c2; o.c = g->c; }
			params.set("path", JV::str(path));
			{ JV nv = fresh_value();
			  // now and then the new value is a number with the same integer part as the one before (1.25 -> 1.75): a different value all the same
			  auto ln = last_num.find(path);
			  if (ln != last_num.end() && r.chance(0.3)) { double fl = (double)(long long)ln->second; double cand = fl + (double)((valctr % 7) + 1) / 8.0; if (cand != ln->second) nv = JV::num(cand); }
			  if (nv.t == JV::Num) last_num[path] = nv.d; else last_num.erase(path);
			  params.set("value", nv); }
			msg = request("change", params);
		} else if (k == "set" || k == "call") {
			std::string path = existing_path(k == "set", r.chance(0.1));
			params.set("path", JV::str(path));
			if (k == "set") params.set("value", fresh_value()); else if (r.chance(0.7)) params.set("args", fresh_value());
			if (r.chance(p_timeout_param)) { static const double tv[] = {0.0005, 0.001, 0.01, 0.5, 1.0, 7.5, -1.0, 0.0, 0.0019, 0.0575, 1.0015, 0.2507, 1.001}; params.set("timeout", JV::num(tv[r.below(13)])); }
			else if (r.chance(0.03)) params.set("timeout", JV::str("1"));
			msg = request(k, params);
		} else if (k == "fetch") {
			JV fid = r.chance(0.5) ? JV::str("f" + std::to_string(++idctr)) : JV::num((double)(++idctr));
			if (!g->fetch_ids.empty() && r.chance(0.08)) fid = g->fetch_ids[r.below(g->fetch_ids.size())];
			// numeric ids that differ from one in use only behind the decimal point, or only beyond the range of an int: distinct ids
			else if (!g->fetch_ids.empty() && r.chance(0.12)) { const JV &o = g->fetch_ids[r.below(g->fetch_ids.size())]; if (o.t == JV::Num) fid = near_num(o.d); }
			else if (fid.t == JV::Num && r.chance(0.1)) fid = JV::num(r.chance(0.5) ? fid.d + 0.5 : 2147483648.0 + fid.d);
			params.set("id", fid);
			if (r.chance(p_adv_rule)) { JV ru = adv_rule(); params.set("path", r.chance(0.03) ? JV::str("a") : ru); }
			else if (r.chance(0.6)) params.set("path", rule());
			msg = request("fetch", params, p_adv_rule == 0);
			g->fetch_ids.push_back(fid);
		} else if (k == "unfetch") {
			JV fid = g->fetch_ids.empty() || r.chance(0.1) ? JV::str("nofetch") : g->fetch_ids[r.below(g->fetch_ids.size())];
			if (fid.t == JV::Num && r.chance(0.15)) fid = near_num(fid.d);   // an id that was never fetched, although its integer part was
			params.set("id", fid); msg = request("unfetch", params);
		} else if (k == "get") {
			if (r.chance(p_adv_rule)) params.set("path", adv_rule());
			else if (r.chance(0.6)) params.set("path", rule());
			msg = request("get", params, false);
		} else if (k == "config") {
			if (r.chance(0.9)) params.set("name", r.chance(0.9) ? JV::str("peer-" + std::to_string(g->c)) : JV::num(5));
			msg = request("config", params);
		} else if (k == "info") {
			msg = request("info", JV::obj());
		} else if (k == "unknown") {
			msg = request(r.chance(0.5) ? "nosuchmethod" : "Add", params);
			if (r.chance(0.3)) { msg = JV::obj(); msg.set("id", next_id()); msg.set("method", JV::num(7)); }
			if (r.chance(0.2)) { msg = JV::obj(); msg.set("id", next_id()); msg.set("foo", JV::num(1)); }
		} else if (k == "noparams") {
			static const char *ms[] = {"add", "remove", "change", "set", "call", "fetch", "unfetch", "get", "config", "authenticate", "passwd"};
			msg = JV::obj(); msg.set("id", next_id()); msg.set("method", JV::str(ms[r.below(11)]));
		} else if (k == "strayreply") {
			msg = JV::obj(); msg.set("id", JV::str("stray-" + std::to_string(++idctr)));
			if (r.chance(0.5)) msg.set("result", fresh_value()); else { JV e = JV::obj(); e.set("code", JV::num(1)); msg.set("error", e); }
		} else if (k == "auth" && creds) {
			std::string u = user_names[r.below(user_names.size())];
			params.set("user", JV::str(r.chance(0.9) ? u : "mallory"));
			params.set("password", JV::str(r.chance(0.75) ? user_pw[u] : "wrong-password-" + std::to_string(++idctr)));
			msg = request("authenticate", params, false);
		} else {
			msg = request("info", JV::obj());
		}
		if (r.chance(p_batch)) {
			JV arr = JV::arr(); arr.push(msg);
			int extra = 1 + (int)r.below(3);
			for (int i = 0; i < extra; i++) { JV pr = JV::obj(); pr.set("path", JV::str(pick_path())); pr.set("value", fresh_value()); bool ad = r.chance(0.5); arr.push(request(ad ? "add" : "change", pr, !ad || (g_variant.element_order >= 8 && !g_variant.add_local_only))); }
			msg = arr;
		}
		// the same request as a text of exactly the maximum message size, or one byte less (blanks behind the opening bracket do not change its meaning)
		if (r.chance(p_exact_size)) {
			std::string t = msg.dump(); size_t want = (size_t)g_variant.max_message - (r.chance(0.6) ? 0 : 1);
			if (t.size() + 1 < want && want <= 600 && valid_utf8(t)) { t.insert(1, std::string(want - t.size(), ' ')); o.a.set("text", JV::str(t)); finish_send(o); p.ops.push_back(o); return; }
		}
		o.a.set("msg", msg);
		finish_send(o);
		p.ops.push_back(o);
	}

	void emit(int c, const std::string &method, const JV &params, uint64_t dt = 0, bool allow_noid = false) {
		Op o = mk("send", c); o.a.set("msg", request(method, params, allow_noid)); o.dt = dt; p.ops.push_back(o);
	}
	// paths that collide in the element index: several in one bucket with the middle one removed, or a whole neighbourhood filled up
	void pat_collisions() {
		GClient *g = alive_client(); if (!g) return;
		int order = g_variant.element_order;
		uint32_t first = (uint32_t)r.below(1u << order);
		std::string pre = "h" + std::to_string(r.below(1000)) + "/";
		auto val = [&]() { return fresh_value(); };
		if (order >= 7 && r.chance(0.35)) {
			// every slot within reach of one bucket is taken: the next key of that bucket has to displace a neighbour (or is refused)
			std::vector<std::string> fill = paths_for_buckets(order, first, 32, 1, pre);
			std::vector<std::string> extra = paths_for_buckets(order, first, 1, 3, pre + "x");
			for (auto &pth : fill) { JV pr = JV::obj(); pr.set("path", JV::str(pth)); pr.set("value", val()); emit(g->c, "add", pr); owner_of[pth] = g->c; is_state[pth] = true; }
			for (size_t k = 0; k < extra.size() && k < 2; k++) { JV pr = JV::obj(); pr.set("path", JV::str(extra[k])); pr.set("value", val()); emit(g->c, "add", pr); emit(g->c, "add", pr); JV ch = JV::obj(); ch.set("path", JV::str(extra[k])); ch.set("value", val()); emit(g->c, "change", ch); owner_of[extra[k]] = g->c; is_state[extra[k]] = true; }
			if (!extra.empty() && r.chance(0.5)) {
				// the key that forced a neighbour out of its slot goes away again; every key of the neighbourhood (one of them sits in a new slot now) must still be found
				{ JV pr = JV::obj(); pr.set("path", JV::str(extra[0])); emit(g->c, "remove", pr); owner_of.erase(extra[0]); }
				for (auto &pth : fill) { JV ch = JV::obj(); ch.set("path", JV::str(pth)); ch.set("value", val()); emit(g->c, "change", ch); }
				{ JV gp = JV::obj(); emit(g->c, "get", gp); }
				{ JV pr = JV::obj(); pr.set("path", JV::str(extra[0])); pr.set("value", val()); emit(g->c, "add", pr); owner_of[extra[0]] = g->c; }
			}
			for (size_t k = 0; k < fill.size(); k += 5) { JV pr = JV::obj(); pr.set("path", JV::str(fill[k])); emit(g->c, "remove", pr); owner_of.erase(fill[k]); }
			for (auto &e : extra) { JV ch = JV::obj(); ch.set("path", JV::str(e)); ch.set("value", val()); emit(g->c, "change", ch); }
			return;
		}
		int n = 3 + (int)r.below(3);
		std::vector<std::string> same = paths_for_buckets(order, first, 1, n, pre);
		if ((int)same.size() < 3) return;
		for (auto &pth : same) { JV pr = JV::obj(); pr.set("path", JV::str(pth)); pr.set("value", val()); emit(g->c, "add", pr); owner_of[pth] = g->c; is_state[pth] = true; paths.push_back(pth); }
		size_t mid = 1 + r.below(same.size() - 2);
		{ JV pr = JV::obj(); pr.set("path", JV::str(same[mid])); emit(g->c, "remove", pr); owner_of.erase(same[mid]); }
		for (size_t k = 0; k < same.size(); k++) { JV ch = JV::obj(); ch.set("path", JV::str(same[k])); ch.set("value", val()); emit(g->c, "change", ch); }
		{ JV pr = JV::obj(); pr.set("path", JV::str(same.back())); pr.set("value", val()); emit(g->c, "add", pr); }            // still there: must be refused
		{ JV pr = JV::obj(); pr.set("path", JV::str(same[mid])); pr.set("value", val()); emit(g->c, "add", pr); owner_of[same[mid]] = g->c; }   // free again: must be accepted
		{ JV gp = JV::obj(); emit(g->c, "get", gp); }
	}
	// many complete requests of one connection arrive as one piece (a pipelining client, or a daemon that was busy): several read buffers full behind one readiness event
	void pat_burst() {
		std::vector<GClient *> cs; for (auto &c : cl) if (c.alive && c.tr != "ws") cs.push_back(&c);
		if (cs.empty()) return;
		GClient *g = cs[r.below(cs.size())];
		size_t target = (size_t)g_variant.max_message * (4 + r.below(11)), total = 0; std::string bytes; int n = 0;
		while (total < target && n < 400) {
			JV pr = JV::obj(); std::string m;
			switch (r.below(4)) {
			case 0: m = request("info", JV::obj(), false).dump(); break;
			case 1: pr.set("name", JV::str("burst-" + std::to_string(n))); m = request("config", pr, false).dump(); break;
			case 2: { std::string pth = existing_path(true, false); pr.set("path", JV::str(pth)); pr.set("value", fresh_value()); m = request("change", pr, false).dump(); break; }
			default: m = request("get", JV::obj(), false).dump(); if (elems_hint > 6) m = request("info", JV::obj(), false).dump(); break;
			}
			if ((int)m.size() > g_variant.max_message) continue;
			bytes += raw_frame(m); total += m.size() + 4; n++;
		}
		Op o = mk("send", g->c); o.a.set("hex", JV::str(hexenc(bytes))); o.dt = pick_dt(); o.hold = false;
		if (r.chance(0.3)) { JV sg = seg_for(bytes.size()); if (sg.t != JV::Null) { o.a.set("seg", sg); o.a.set("gap", JV::num(0)); } }
		p.ops.push_back(o);
	}
	// a state that may only be fetched: nobody may set it, its owner included; the owner may still change it
	void pat_fetchonly_owner() {
		GClient *g = alive_client(); if (!g) return;
		std::string pth = "fo/" + std::to_string(++idctr);
		JV a = JV::obj(); a.set("path", JV::str(pth)); a.set("value", fresh_value()); a.set("fetchOnly", JV::boolean(true)); emit(g->c, "add", a);
		owner_of[pth] = g->c; is_state[pth] = true; paths.push_back(pth);
		JV st = JV::obj(); st.set("path", JV::str(pth)); st.set("value", fresh_value()); emit(g->c, "set", st);
		GClient *o2 = alive_client(); if (o2) { JV s2 = JV::obj(); s2.set("path", JV::str(pth)); s2.set("value", fresh_value()); emit(o2->c, "set", s2); }
		JV ch = JV::obj(); ch.set("path", JV::str(pth)); ch.set("value", fresh_value()); emit(g->c, "change", ch);
		if (r.chance(0.5)) { JV gp = JV::obj(); emit(g->c, "get", gp); }
	}
	// a routed request is in flight, the owner gives up the element, the caller leaves, and only then the owner answers
	void pat_owner_removes_then_caller_leaves() {
		std::vector<int> ix; for (size_t i = 0; i < cl.size(); i++) if (cl[i].alive) ix.push_back((int)i);
		if (ix.size() < 2) return;
		int oi = ix[r.below(ix.size())], ci = oi; while (ci == oi) ci = ix[r.below(ix.size())];
		if (r.chance(0.6) && (int)cl.size() < max_clients + 2) { op_connect(); p.ops.back().hold = false; oi = (int)cl.size() - 1; }   // an owner that owns nothing else
		GClient &ow = cl[(size_t)oi], &ca = cl[(size_t)ci];
		std::string path = "late/" + std::to_string(++idctr);
		bool never = r.chance(profile == "c14" ? 0.6 : 0.3);   // the owner never answers: the deadline passes after the caller has gone
		{ Op po = mk("policy", ow.c); po.a.set("mode", JV::str(never ? "never" : "result")); po.a.set("delay", JV::num(r.chance(0.5) ? 2000000 : 800000000)); p.ops.push_back(po); }
		bool state = r.chance(0.6);
		{ JV pr = JV::obj(); pr.set("path", JV::str(path)); if (state) pr.set("value", JV::num(1)); if (never) pr.set("timeout", JV::num(r.chance(0.5) ? 0.25 : 1.5)); emit(ow.c, "add", pr); }
		int nreq = 1 + (int)r.below(3);
		for (int k = 0; k < nreq; k++) { JV pr = JV::obj(); pr.set("path", JV::str(path)); if (state) pr.set("value", fresh_value()); emit(ca.c, state ? "set" : "call", pr); }
		{ JV pr = JV::obj(); pr.set("path", JV::str(path)); emit(ow.c, "remove", pr); }
		{ Op c = mk("close", ca.c); c.a.set("how", JV::str(r.chance(0.7) ? "fin" : "hup")); c.dt = r.chance(0.5) ? 0 : 1000; p.ops.push_back(c); ca.alive = false; for (auto it = owner_of.begin(); it != owner_of.end();) if (it->second == ca.c) it = owner_of.erase(it); else ++it; }
		if (r.chance(0.6)) op_connect();
		{ Op a = mk("advance"); a.dt = never ? 6000000000ULL : 1000000000ULL; p.ops.push_back(a); }
		if (never && r.chance(0.5)) { GClient &ow2 = cl[(size_t)oi]; /* op_connect() may have moved the vector */ Op c = mk("close", ow2.c); c.a.set("how", JV::str("fin")); c.dt = 1000; p.ops.push_back(c); ow2.alive = false; int oc = ow2.c; for (auto it = owner_of.begin(); it != owner_of.end();) if (it->second == oc) it = owner_of.erase(it); else ++it; }
	}
	// a caller resets its connection at the instant the owner's answers arrive: the daemon finds the answer for the vanished caller
	// undeliverable (EPIPE) before it has noticed the hang-up; the owner and the other caller must not be affected
	void pat_caller_reset_races_reply() {
		std::vector<int> ix; for (size_t i = 0; i < cl.size(); i++) if (cl[i].alive) ix.push_back((int)i);
		if (ix.size() < 3) return;
		int oi = ix[r.below(ix.size())], ci = oi, bi = oi; while (ci == oi) ci = ix[r.below(ix.size())]; while (bi == oi || bi == ci) bi = ix[r.below(ix.size())];
		GClient &ow = cl[(size_t)oi], &ca = cl[(size_t)ci], &cb = cl[(size_t)bi];
		p.hdr.put("epipe", JV::boolean(true));
		std::string path = "race/" + std::to_string(++idctr);
		uint64_t D = r.chance(0.5) ? 1000000 : 50000;
		{ Op po = mk("policy", ow.c); po.a.set("mode", JV::str(r.chance(0.8) ? "result" : "error")); po.a.set("delay", JV::num((double)D)); p.ops.push_back(po); }
		bool state = r.chance(0.5);
		{ JV pr = JV::obj(); pr.set("path", JV::str(path)); if (state) pr.set("value", JV::num(1)); emit(ow.c, "add", pr); }
		bool first_b = r.chance(0.5);
		for (int k = 0; k < 2; k++) { GClient &from = (k == 0) == first_b ? cb : ca; JV pr = JV::obj(); pr.set("path", JV::str(path)); if (state) pr.set("value", fresh_value()); else pr.set("args", fresh_value()); Op o = mk("send", from.c); o.a.set("msg", request(state ? "set" : "call", pr, false)); o.hold = k == 0; p.ops.push_back(o); }
		{ Op c = mk("close", ca.c); c.a.set("how", JV::str("rst")); c.dt = D; c.hold = true; p.ops.push_back(c); ca.alive = false; for (auto it = owner_of.begin(); it != owner_of.end();) if (it->second == ca.c) it = owner_of.erase(it); else ++it; }
		{ Op a = mk("advance"); a.dt = 1000; p.ops.push_back(a); }
		{ JV pr = JV::obj(); emit(cb.c, "info", pr); }
		{ Op po = mk("policy", ow.c); po.a.set("mode", JV::str("result")); po.a.set("delay", JV::num(0)); p.ops.push_back(po); }
	}
	// two requests to a silent owner whose deadlines fall on the same instant: both expiries are harvested in one batch
	void pat_double_expiry() {
		std::vector<int> ix; for (size_t i = 0; i < cl.size(); i++) if (cl[i].alive) ix.push_back((int)i);
		if (ix.size() < 2) return;
		int oi = ix[r.below(ix.size())], ci = oi; while (ci == oi) ci = ix[r.below(ix.size())];
		GClient &ow = cl[(size_t)oi], &ca = cl[(size_t)ci];
		std::string path = "slow/" + std::to_string(++idctr);
		{ Op po = mk("policy", ow.c); po.a.set("mode", JV::str("never")); p.ops.push_back(po); }
		{ JV pr = JV::obj(); pr.set("path", JV::str(path)); pr.set("value", JV::num(1)); emit(ow.c, "add", pr); }
		int nreq = 2 + (int)r.below(3);
		static const double tos[] = {0.25, 0.5, 0.001, 1.0};
		double to = tos[r.below(4)];
		for (int k = 0; k < nreq; k++) { JV pr = JV::obj(); pr.set("path", JV::str(path)); pr.set("value", fresh_value()); pr.set("timeout", JV::num(to)); int from = r.chance(0.7) ? ca.c : cl[(size_t)ix[r.below(ix.size())]].c; Op o = mk("send", from); o.a.set("msg", request("set", pr, false)); o.hold = true; p.ops.push_back(o); }
		{ Op a = mk("advance"); a.dt = (uint64_t)(to * 1e9) + (r.chance(0.5) ? 0 : 1000); a.hold = r.chance(0.5); p.ops.push_back(a); }
		{ Op po = mk("policy", ow.c); po.a.set("mode", JV::str("result")); p.ops.push_back(po); }
	}

	// a request times out; its caller asks again (numeric ids, as many clients use) while the owner's answer to the first is still on its way:
	// the late answer belongs to nobody, the second request gets its own
	void pat_retry_after_timeout() {
		std::vector<int> ix; for (size_t i = 0; i < cl.size(); i++) if (cl[i].alive) ix.push_back((int)i);
		if (ix.size() < 2) return;
		int oi = ix[r.below(ix.size())], ci = oi; while (ci == oi) ci = ix[r.below(ix.size())];
		GClient &ow = cl[(size_t)oi], &ca = cl[(size_t)ci];
		std::string path = "retry/" + std::to_string(++idctr);
		{ Op po = mk("policy", ow.c); po.a.set("mode", JV::str("result")); po.a.set("delay", JV::num(200000000)); p.ops.push_back(po); }   // answers after 200 ms
		{ JV pr = JV::obj(); pr.set("path", JV::str(path)); pr.set("value", JV::num(1)); emit(ow.c, "add", pr); }
		bool numeric = r.chance(0.7);
		auto ask = [&](double to, uint64_t dt) {
			JV pr = JV::obj(); pr.set("path", JV::str(path)); pr.set("value", fresh_value()); pr.set("timeout", JV::num(to));
			JV q = JV::obj(); q.set("id", numeric ? JV::num((double)(7000 + ++idctr)) : JV::str("r" + std::to_string(++idctr))); q.set("method", JV::str("set")); q.set("params", pr);
			Op o = mk("send", ca.c); o.a.set("msg", q); o.dt = dt; o.hold = false; p.ops.push_back(o);
		};
		ask(0.05, 1000);                       // times out after 50 ms
		ask(1.0, 100000000);                   // asked again at 100 ms; the first answer arrives at 200 ms, the second at 300 ms
		if (r.chance(0.4)) ask(1.0, 0);
		{ Op a = mk("advance"); a.dt = 500000000ULL; p.ops.push_back(a); }
		{ Op po = mk("policy", ow.c); po.a.set("mode", JV::str("result")); po.a.set("delay", JV::num(0)); p.ops.push_back(po); }
	}

	// rights must follow the *current* authentication of the *requesting* peer: re-authenticate as a user with fewer rights, ask on behalf of nobody
	// the right to set and the right to call are two rights: a group a user holds only for setting does not let it call a method that names this group, and vice versa
	void pat_rights_cross() {
		if (!creds || user_names.empty()) return;
		std::vector<int> ix; for (size_t i = 0; i < cl.size(); i++) if (cl[i].alive) ix.push_back((int)i);
		if (ix.size() < 2) return;
		int oi = ix[r.below(ix.size())], ci = oi; while (ci == oi) ci = ix[r.below(ix.size())];
		GClient &ow = cl[(size_t)oi], &ca = cl[(size_t)ci];
		std::string A, grp; bool has_set = false;
		for (int t = 0; t < 40 && A.empty(); t++) {
			const std::string &u = user_names[r.below(user_names.size())]; if (u == "locked") continue;
			auto &sg = user_rights[u]["setGroups"]; auto &cg = user_rights[u]["callGroups"];
			for (auto &g2 : sg) if (std::find(cg.begin(), cg.end(), g2) == cg.end()) { A = u; grp = g2; has_set = true; break; }
			if (A.empty()) for (auto &g2 : cg) if (std::find(sg.begin(), sg.end(), g2) == sg.end()) { A = u; grp = g2; has_set = false; break; }
		}
		if (A.empty()) return;
		std::string path = "aclx/" + std::to_string(++idctr);
		bool state = !has_set;   // the element asks for the right the user does NOT hold with this group
		{ JV pr = JV::obj(); pr.set("path", JV::str(path)); if (state) pr.set("value", fresh_value()); JV acc = JV::obj(); JV ga = JV::arr(); ga.push(JV::str(grp));
		  acc.set("fetchGroups", ga); acc.set(state ? "setGroups" : "callGroups", ga); pr.set("access", acc); emit(ow.c, "add", pr); owner_of[path] = ow.c; is_state[path] = state; }
		{ JV pr = JV::obj(); pr.set("user", JV::str(A)); pr.set("password", JV::str(user_pw[A])); emit(ca.c, "authenticate", pr); }
		{ JV pr = JV::obj(); pr.set("path", JV::str(path)); if (state) pr.set("value", fresh_value()); emit(ca.c, state ? "set" : "call", pr); }
	}
	void pat_rights() {
		if (!creds || user_names.empty()) return;
		std::vector<int> ix; for (size_t i = 0; i < cl.size(); i++) if (cl[i].alive) ix.push_back((int)i);
		if (ix.size() < 2) return;
		int oi = ix[r.below(ix.size())], ci = oi; while (ci == oi) ci = ix[r.below(ix.size())];
		GClient &ow = cl[(size_t)oi], &ca = cl[(size_t)ci];
		// a user with some right, and a group of it
		std::string A, kind, grp;
		for (int t = 0; t < 20 && A.empty(); t++) { const std::string &u = user_names[r.below(user_names.size())]; static const char *ks[] = {"fetchGroups", "setGroups", "callGroups"}; const char *k = ks[r.below(3)]; auto it = user_rights[u].find(k); if (it != user_rights[u].end() && !it->second.empty()) { A = u; kind = k; grp = it->second[r.below(it->second.size())]; } }
		if (A.empty()) return;
		std::string B; for (int t = 0; t < 20 && B.empty(); t++) { const std::string &u = user_names[r.below(user_names.size())]; if (u == A) continue; auto it = user_rights[u].find(kind); bool has = it != user_rights[u].end() && std::find(it->second.begin(), it->second.end(), grp) != it->second.end(); if (!has) B = u; }
		auto auth = [&](GClient &g, const std::string &u) { JV pr = JV::obj(); pr.set("user", JV::str(u)); pr.set("password", JV::str(user_pw[u])); emit(g.c, "authenticate", pr); };
		std::string path = "acl/" + std::to_string(++idctr);
		bool state = kind != "callGroups";
		// the owner is authenticated as A (so that its own groups match the element's)
		if (r.chance(0.7)) auth(ow, A);
		{ JV pr = JV::obj(); pr.set("path", JV::str(path)); if (state) pr.set("value", fresh_value()); JV acc = JV::obj(); JV ga = JV::arr(); ga.push(JV::str(grp));
		  acc.set("fetchGroups", kind == "fetchGroups" ? ga : JV::arr().push(JV::str(grp))); acc.set(state ? "setGroups" : "callGroups", ga); pr.set("access", acc); emit(ow.c, "add", pr); owner_of[path] = ow.c; is_state[path] = state; }
		// the other peer: first with the right, then re-authenticated without it (or never authenticated)
		if (r.chance(0.6)) auth(ca, A);
		if (!B.empty() && r.chance(0.8)) auth(ca, B);
		for (int k = 0; k < 2; k++) {
			JV pr = JV::obj();
			double y = r.unit();
			if (y < 0.4) { emit(ca.c, "get", JV::obj()); }
			else if (y < 0.6) { JV ru = JV::obj(); ru.set("startsWith", JV::str("acl/")); pr.set("path", ru); emit(ca.c, "get", pr); }
			else { pr.set("path", JV::str(path)); if (state) pr.set("value", fresh_value()); emit(ca.c, state ? "set" : "call", pr); }
		}
		if (r.chance(0.5)) { JV f = JV::obj(); f.set("id", JV::str("af" + std::to_string(++idctr))); emit(ca.c, "fetch", f); ca.fetch_ids.push_back(f.o[0].second); }
	}

	void setup_creds(JV &hdr) {
		creds = true;
		int ng = 1 + (int)r.below(r.chance(0.2) ? 32 : 6);
		if (r.chance(0.06)) ng = 32;   // the 32-group limit: the last group needs bit 31 of the mask
		for (int i = 0; i < ng; i++) groups.push_back("g" + std::to_string(i));
		int nu = 1 + (int)r.below(5);
		JV users = JV::obj();
		for (int i = 0; i < nu; i++) {
			std::string name = std::string("user") + (char)('a' + i);
			JV u = JV::obj();
			std::string pw = "pw-" + name + "-" + std::to_string(r.below(1000000) + 1000000);
			u.set("password", JV::str(pw)); user_pw[name] = pw; user_names.push_back(name);
			static const char *hs[] = {"des", "des", "des", "md5", "md5", "sha256", "sha512"};
			u.set("hash", JV::str(hs[r.below(r.chance(0.85) ? 5 : 7)]));
			for (const char *k : {"fetchGroups", "setGroups", "callGroups"}) { if (r.chance(0.15)) { u.put("sparse", JV::boolean(true)); continue; } /* a user may lack a kind of right altogether */ JV a = JV::arr(); int n = (int)r.below(4); for (int j = 0; j < n; j++) a.push(JV::str(groups[r.below(groups.size())])); if (r.chance(groups.size() == 32 ? 0.5 : 0.1)) a.push(JV::str(groups.back())); u.set(k, a); for (auto &x : a.a) user_rights[name][k].push_back(x.s); if (a.a.empty()) user_rights[name][k]; }
			if (i == 0 && groups.size() == 32 && r.chance(0.7)) {
				// the first user names every group: the file then defines 32 groups and the last one needs bit 31
				JV all = JV::arr(); for (auto &gn : groups) all.push(JV::str(gn)); u.put("fetchGroups", all);
				JV last = JV::arr(); last.push(JV::str(groups[31])); last.push(JV::str(groups[30])); u.put("setGroups", last); u.put("callGroups", last);
				user_rights[name]["fetchGroups"] = groups; user_rights[name]["setGroups"] = {groups[31], groups[30]}; user_rights[name]["callGroups"] = {groups[31], groups[30]};
			}
			if (r.chance(0.2)) u.set("admin", JV::boolean(true));
			if (r.chance(0.2)) u.set("readonly", JV::boolean(true));
			users.set(name, u);
		}
		if (nu >= 1 && r.chance(0.2)) {
			// two accounts whose names differ only in the case of letters are two accounts: each has its own password and its own groups
			std::string name = r.chance(0.5) ? "UserA" : "USERA"; JV u = JV::obj();
			std::string pw = "pw-" + name + "-" + std::to_string(r.below(1000000) + 1000000);
			u.set("password", JV::str(pw)); user_pw[name] = pw; user_names.push_back(name);
			u.set("hash", JV::str(r.chance(0.5) ? "des" : "md5"));
			for (const char *k : {"fetchGroups", "setGroups", "callGroups"}) { JV a = JV::arr(); int n = (int)r.below(3); for (int j = 0; j < n; j++) a.push(JV::str(groups[r.below(groups.size())])); u.set(k, a); for (auto &x : a.a) user_rights[name][k].push_back(x.s); if (a.a.empty()) user_rights[name][k]; }
			// in front of or behind its namesake in the file
			if (r.chance(0.5)) { JV nu2 = JV::obj(); nu2.set(name, u); for (auto &kv : users.o) nu2.set(kv.first, kv.second); users = nu2; } else users.set(name, u);
		}
		if (r.chance(0.3)) {
			// an account nobody can log into: the stored "hash" is a lock marker, empty, or only a salt - no password produces it. It holds every group.
			static const char *lk[] = {"*", "", "!", "salt", "salt", "x"};
			std::string name = "locked"; JV u = JV::obj();
			u.set("locked", JV::str(lk[r.below(6)])); u.set("password", JV::str("never-" + std::to_string(r.below(1000000) + 1000000)));
			static const char *hs[] = {"des", "md5", "sha512"}; u.set("hash", JV::str(hs[r.below(3)]));
			JV all = JV::arr(); for (auto &gn : groups) all.push(JV::str(gn));
			u.set("fetchGroups", all); u.set("setGroups", all); u.set("callGroups", all);
			users.set(name, u);
			user_pw[name] = r.chance(0.5) ? "" : "guess-" + std::to_string(r.below(100)); user_names.push_back(name); user_names.push_back(name);
		}
		JV c = JV::obj(); c.set("path", JV::str("/etc/cjet/passwd.json")); c.set("users", users);
		if (r.chance(0.1)) c.set("pad_to", JV::num(4096));
		hdr.put("creds", c);
		JV argv = JV::arr(); argv.push(JV::str("-f")); argv.push(JV::str("-p")); argv.push(JV::str("/etc/cjet/passwd.json"));
		hdr.put("argv", argv);
	}

	void op_violation_then_close() {
		// protocol-level ways in which a connection ends: truncated message, bad JSON, over-long length prefix, non-object batch member
		GClient *g = alive_client(); if (!g) return;
		Op o = mk("send", g->c);
		JV pr = JV::obj(); pr.set("path", JV::str(pick_path())); pr.set("value", fresh_value());
		JV good = request("change", pr, false);
		switch (r.below(5)) {
		case 0: { o.a.set("msg", good); o.a.set("cut", JV::num((double)(1 + r.below(good.dump().size() + 3)))); break; }
		case 1: { static const char *bad[] = {"{\"id\":1,", "hello", "[1,2", "\"str\"", "5", "{\"method\" \"x\"}", "}"}; o.a.set("text", JV::str(bad[r.below(7)])); break; }
		case 2: { if (g->tr == "ws") { o.a.set("msg", good); o.a.set("nomask", JV::boolean(true)); } else { uint32_t L = (uint32_t)g_variant.max_message + 1 + (uint32_t)r.below(3); std::string b; b += (char)(L >> 24); b += (char)(L >> 16); b += (char)(L >> 8); b += (char)L; o.a.set("hex", JV::str(hexenc(b))); } break; }
		case 3: { JV arr = JV::arr(); arr.push(good); arr.push(JV::num(7)); JV pr2 = JV::obj(); pr2.set("path", JV::str(pick_path())); arr.push(request("remove", pr2, false)); o.a.set("msg", arr); break; }
		default: { JV m = JV::obj(); m.set("result", JV::num(1)); if (r.chance(0.5)) m.set("id", JV::num(5)); o.a.set("msg", m); break; }
		}
		bool cuts = o.a.has("cut");
		finish_send(o);
		if (o.a.has("nomask") && g->tr != "ws") return;
		// the last bytes of a message that never gets complete and the end of the stream are reported by one readiness event
		bool together = cuts && r.chance(0.5);
		if (together) { o.hold = true; if (r.chance(0.5)) { o.a.put("seg", JV()); o.a.put("gap", JV::num(0)); } }
		p.ops.push_back(o);
		if (cuts || r.chance(0.5)) {
			Op c = mk("close", g->c); c.a.set("how", JV::str(together || r.chance(0.6) ? "fin" : "hup")); c.dt = together ? 0 : pick_dt(); p.ops.push_back(c);
		}
		g->alive = false;
		for (auto it = owner_of.begin(); it != owner_of.end();) if (it->second == g->c) it = owner_of.erase(it); else ++it;
	}

	void op_close() {
		GClient *g = alive_client(); if (!g) return;
		Op o = mk("close", g->c);
		double x = r.unit();
		std::string how = x < 0.5 ? "fin" : x < 0.75 ? "hup" : "rst";
		if (!allow_rst && how == "rst") how = "fin";
		o.a.set("how", JV::str(how));
		o.dt = pick_dt();
		o.hold = how == "rst" ? false : r.chance(p_hold);
		// a reset must not be batched together with traffic that writes to the reset connection (that is the fault profile)
		if (how == "rst" && !p.ops.empty()) p.ops.back().hold = false;
		p.ops.push_back(o);
		g->alive = false;
		for (auto it = owner_of.begin(); it != owner_of.end();) if (it->second == g->c) it = owner_of.erase(it); else ++it;
	}
};

void base_paths(Gen &g) {
	static const char *pool[] = {"a", "A", "a/b", "a/B", "ab", "abc", "b/a", "", "\xc3\xa9", "\xc3\xa9lan/a", "x/y/z", "X/Y/Z", "ba", "b", "abcabc", "a b", "p/\xe2\x82\xac", "q\"uote", "aaab", "abab/c", "d/11/12"};   // the last three: an occurrence of a suffix starts inside a failed partial match of it
	size_t n = 4 + g.r.below(9);
	std::vector<std::string> all(pool, pool + sizeof pool / sizeof *pool);
	for (size_t i = 0; i < n; i++) { std::string s = all[g.r.below(all.size())]; if (std::find(g.paths.begin(), g.paths.end(), s) == g.paths.end()) g.paths.push_back(s); }
	if (g.r.chance(0.2)) g.paths.push_back(std::string(60 + g.r.below(40), 'L'));
}

void swarm_common(Gen &g, const std::string &profile) {
	Rng &r = g.r;
	g.long_ids = (profile == "c03" || profile == "c02b" || profile == "base" || profile == "c05" || profile == "c14") && mix64(g.p.seed, 0x10D5) % 16 == 0;
	g.p_hold = r.chance(0.5) ? 0 : r.unit() * 0.6;
	g.seg_style = (int)r.below(3); g.p_seg = r.chance(0.3) ? 1.0 : r.unit();
	g.p_noid = r.chance(0.5) ? 0.05 : 0.3; g.p_numid = r.unit() * 0.6; g.p_batch = r.chance(0.5) ? 0 : 0.15;
	g.p_ws = r.chance(0.3) ? 0 : r.unit() * 0.6; g.p_uds = r.chance(0.5) ? 0 : 0.2;
	g.dt_w = {4, 2, 2, 1, 0.5, 0.3, 0.05, 0.05, 0.05, 0.1};
	if (r.chance(0.4)) { g.dt_w[4] = g.dt_w[5] = g.dt_w[6] = g.dt_w[7] = g.dt_w[8] = g.dt_w[9] = 0; }
	g.delay_w = {5, 2, 1, 0.3, 0.3, 0.3, 0.3};
	auto on = [&](double p) { return r.chance(p); };
	std::map<std::string, double> &w = g.w;
	w["add"] = 3; w["remove"] = on(0.8) ? 1.5 : 0; w["change"] = on(0.8) ? 3 : 0; w["fetch"] = on(0.9) ? 2 : 0; w["unfetch"] = on(0.6) ? 0.7 : 0;
	w["set"] = on(0.6) ? 1.5 : 0; w["call"] = on(0.5) ? 1.0 : 0; w["get"] = on(0.5) ? 0.7 : 0; w["config"] = on(0.3) ? 0.3 : 0; w["info"] = on(0.3) ? 0.2 : 0;
	w["unknown"] = on(0.3) ? 0.3 : 0; w["noparams"] = on(0.3) ? 0.3 : 0; w["strayreply"] = on(0.3) ? 0.4 : 0;
	if (profile == "c03" || profile == "c14") { w["set"] = 4; w["call"] = 3; w["add"] = 3; w["fetch"] = on(0.3) ? 0.5 : 0; w["change"] = 0.5; w["strayreply"] = 0.8; g.p_timeout_param = 0.4; g.delay_w = {3, 2, 2, 1.5, 1.5, 1.5, 1}; g.dt_w = {4, 2, 2, 1, 1, 1, 0.6, 0.6, 0.6, 0.3}; }
	if (profile == "c14") { g.p_hold = 0.5 + r.unit() * 0.4; g.p_timeout_param = 0.6; }
	if (profile == "c01") { w["fetch"] = 3; w["unfetch"] = 1; w["add"] = 4; w["change"] = 4; w["remove"] = 2; w["set"] = 0; w["call"] = 0; }
	if (profile == "c11" || profile == "c11x") { w["add"] = 3; w["change"] = 4; w["remove"] = 1.5; w["fetch"] = 2; w["unfetch"] = 0.5; w["set"] = 2; w["call"] = 1.5; w["get"] = 0.7; g.p_batch = 0; g.delay_w = {5, 2, 1, 0.3, 0.3, 0.3, 0.3}; }
	if (profile == "c16") { w["fetch"] = 4; w["get"] = 3; w["unfetch"] = 1; w["add"] = 4; w["change"] = 1.5; w["remove"] = 1.5; w["set"] = 0; w["call"] = 0; w["unknown"] = 0; w["noparams"] = 0; w["strayreply"] = 0; g.p_adv_rule = 0.9; g.p_batch = 0; }
	if (profile == "c04") { w["add"] = 4; w["remove"] = 2.5; w["change"] = 3; w["set"] = 1.5; w["call"] = 1.5; w["get"] = 1.5; }
}

Plan gen_base(const std::string &profile, uint64_t seed, const JV &opts) {
	Gen g(seed);
	g.p.profile = profile; g.p.seed = seed; g.profile = profile;
	swarm_common(g, profile);
	base_paths(g);
	Rng &r = g.r;
	if (profile == "c16" && r.chance(0.5)) {
		// pairs that differ only in the characters next to the letters in ASCII ('[' vs '{', '_' vs DEL, '@' vs '`'): equal for no matcher, with or without caseInsensitive
		static const char *pp[][2] = {{"list[0]", "list{0}"}, {"a_b", "a\x7f" "b"}, {"x^y", "x~y"}, {"p\\q", "p|q"}, {"m@n", "m`n"}, {"LIST]", "list}"}};
		int n = 1 + (int)r.below(3);
		for (int i = 0; i < n; i++) { size_t k = r.below(6); g.paths.push_back(pp[k][0]); g.paths.push_back(pp[k][1]); }
	}
	JV &h = g.p.hdr;
	h.set("mode", JV::str("exact"));
	h.set("fill", JV::num((double)r.below(5)));
	h.set("shuffle", JV::num(r.chance(0.5) ? 0.0 : r.unit()));
	JV argv = JV::arr(); if (r.chance(0.7)) argv.push(JV::str("-f")); if (r.chance(0.15)) argv.push(JV::str("-l"));
	h.set("argv", argv);
	h.set("end", JV::str(r.chance(0.25) ? "sigterm" : "close"));
	h.set("canary_prop", JV::str(opts.gets("prop", "C11")));
	int nops = r.chance(0.5) ? 4 + (int)r.below(9) : 10 + (int)r.below(r.chance(0.2) ? 150 : 40);
	int nclients = 2 + (int)r.below(4);
	if (profile == "c04") h.set("observer", JV::boolean(true));
	if (profile == "c11" || profile == "c11x" || profile == "c07") g.p_conn_fault = 0.06;
	if (profile == "c15h") {
		// ordinary client activity that reaches the configured heap cap (meant for the heapcap variant): the first refusal is handled like an injected failure
		for (int i = 0; i < 12; i++) g.paths.push_back("fat/" + std::to_string(i));
		g.p_fat = 0.7; g.w["add"] = 7; g.w["change"] = 4; g.w["remove"] = 1; g.w["get"] = 2; g.w["fetch"] = 1.5; g.w["set"] = 1; g.w["call"] = 0.5;
		nops = 12 + (int)r.below(50);
		std::string ap = opts.gets("afprop", "C15");
		h.set("shadow", JV::boolean(true)); h.set("relabel_after_fault", JV::str(ap)); h.set("ledgerprop", JV::str(ap)); h.set("memprop", JV::str(ap)); h.set("baseprop", JV::str(ap)); h.put("canary_prop", JV::str(ap));
		h.set("shadowprop", JV::str(opts.gets("shadowprop", ap)));
	}
	if (profile == "c16") h.set("notify_prop", JV::str("C16"));
	if (profile == "c08") h.set("notify_prop", JV::str("C08"));
	if (profile == "c05") h.set("memprop", JV::str("C05"));
	if (profile == "c14") h.set("memprop", JV::str("C14"));
	if (profile == "c08" || (profile == "c07" && r.chance(0.4))) g.setup_creds(h);
	if (profile == "c08") { g.w["auth"] = 3; g.w["fetch"] = 2.5; g.w["get"] = 1.5; g.w["set"] = 1.5; g.w["call"] = 1; g.w["add"] = 4; g.p_ws = 0.4; g.p_uds = 0.2; }
	if (profile == "c07") {
		if (g.creds) g.w["auth"] = 2;
		g.w["set"] = 3; g.w["call"] = 2; g.w["unknown"] = 0.5; g.w["noparams"] = 0.5;
		if (r.chance(0.5)) h.set("route_may_fail", JV::boolean(true));
	}
	// a connection that was reset by its client refuses further writes (EPIPE) until the daemon has noticed the hang-up
	if ((profile == "c03" || profile == "c05" || profile == "base" || profile == "c14") && r.chance(0.5)) h.set("epipe", JV::boolean(true));
	if ((profile == "c03" || profile == "c14") && r.chance(0.25)) h.set("route_may_fail", JV::boolean(true));
	bool inject_res = h.getb("route_may_fail");
	std::set<int> faulty_cs;
	if (profile == "c11x") {
		// memory-safety companion of c11: impaired peers keep adding, changing and removing elements their own (undeliverable) subscriptions match;
		// what healthy peers are told is not predictable then, so only the ledger, survival, hygiene and the sanitizers judge
		h.put("mode", JV::str("ledger")); std::string pr = opts.gets("prop", "C11");
		h.put("memprop", JV::str(pr)); h.put("baseprop", JV::str(pr)); h.put("canary_prop", JV::str(pr)); h.put("ledgerprop", JV::str(pr));
		g.w["add"] = 6; g.w["remove"] = 2.5;
	}
	if (profile == "c11" || profile == "c11x") {
		// faulty peers connect (and subscribe) first, so that they sit in front of the healthy ones in the daemon's tables
		if (profile == "c11") { h.set("relabel", JV::str("C11")); h.set("memprop", JV::str("C11")); h.set("baseprop", JV::str("C11")); }
		h.set("epipe", JV::boolean(true));
		int nf = 1 + (int)r.below(2);
		std::vector<Op> later;
		for (int i = 0; i < nf; i++) {
			size_t before = g.p.ops.size();
			g.op_connect();
			Op &co = g.p.ops[before];
			int c = co.c; faulty_cs.insert(c);
			co.hold = false;
			int kind = (int)r.below(4);     // 0 stalled from the start, 1 stalls later, 2 socket fails later, 3 turns hostile later
			// a peer is a member of the faulty set from the moment its send path is impaired; until then it is judged like any other peer
			if (kind == 0) { co.a.put("faulty", JV::boolean(true)); co.a.put("space", JV::num((double)r.below(r.chance(0.5) ? 1 : 200))); }
			// it subscribes to everything and owns an element, so that notifications and routed requests have to be delivered to it
			Op f = g.mk("send", c); JV pr = JV::obj(); pr.set("id", JV::str("xf" + std::to_string(c))); JV q = JV::obj(); q.set("id", JV::str("xq" + std::to_string(c))); q.set("method", JV::str("fetch")); q.set("params", pr); f.a.set("msg", q); g.p.ops.push_back(f);
			if (kind != 0 && r.chance(0.8)) { std::string path = "x/" + std::to_string(c); bool st = r.chance(0.6); Op a = g.mk("send", c); JV p2 = JV::obj(); p2.set("path", JV::str(path)); if (st) p2.set("value", JV::num(1)); JV q2 = JV::obj(); q2.set("id", JV::str("xa" + std::to_string(c))); q2.set("method", JV::str("add")); q2.set("params", p2); a.a.set("msg", q2); later.push_back(a); g.owner_of[path] = c; g.is_state[path] = st; g.paths.push_back(path); g.paths.push_back(path); }
			g.p.ops[before].a.put("fkind", JV::num(kind));
			if (r.chance(0.3)) { g.p.ops[before].a.put("wboundary", JV::boolean(true)); if (kind != 0) g.p.ops[before].a.put("faulty", JV::boolean(true)); }
		}
		// a healthy observer (fetch-all) behind the faulty peers: what it is told decides whether a faulty peer's own add took effect
		{ GClient gc; gc.c = g.next_client++; gc.tr = "raw"; Op o = g.mk("connect", gc.c); o.a.set("tr", JV::str("raw")); o.a.set("ip", JV::str("127.0.0.1")); JV pol = JV::obj(); pol.set("mode", JV::str("result")); pol.set("delay", JV::num(0)); o.a.set("policy", pol); g.p.ops.push_back(o); gc.alive = false; g.cl.push_back(gc);
		  Op f = g.mk("send", gc.c); JV pr = JV::obj(); pr.set("id", JV::str("obs")); JV q = JV::obj(); q.set("id", JV::str("obsq")); q.set("method", JV::str("fetch")); q.set("params", pr); f.a.set("msg", q); g.p.ops.push_back(f); }
		for (auto &a : later) g.p.ops.push_back(a);
	}
	for (int i = 0; i < nclients && i < 2; i++) g.op_connect(i == 0 && (profile == "c04" || profile == "c15h"));
	if (profile == "c16") { int na = 3 + (int)r.below(5); double save = g.p_batch; for (int i = 0; i < na; i++) { std::map<std::string, double> w2 = g.w; g.w.clear(); g.w["add"] = 1; g.op_request(); g.w = w2; } g.p_batch = save; }
	if (profile == "c15h") {
		// the first client fills the heap to 55..98 % of what is left below the cap; it stays connected
		double budget = (double)g_variant.heap_kb * 1024 - 9000.0 * nclients - 6000;
		double target = budget * (0.55 + 0.43 * r.unit()), est = 0;
		size_t room = g_variant.max_message > 260 ? (size_t)g_variant.max_message - 200 : 60;
		for (int i = 0; est < target && i < 40; i++) {
			size_t n = std::min<size_t>(room / 2, (size_t)((target - est) / 72) + 2);
			JV a = JV::arr(); for (size_t k = 0; k < n; k++) a.push(JV::num((double)(k % 10)));
			std::string path = "fill/" + std::to_string(i);
			JV pr = JV::obj(); pr.set("path", JV::str(path)); pr.set("value", a);
			Op o = g.mk("send", 0); JV q = JV::obj(); q.set("id", JV::str("fill" + std::to_string(i))); q.set("method", JV::str("add")); q.set("params", pr); o.a.set("msg", q); o.dt = 0; g.p.ops.push_back(o);
			g.owner_of[path] = 0; g.is_state[path] = true; if (i < 3) g.paths.push_back(path);
			est += 72.0 * (double)n + 400;
		}
	}
	if (profile == "c04") {
		// the first client is the observer: fetch-all, never closed by the plan
		Op o = g.mk("send", 0); JV pr = JV::obj(); pr.set("id", JV::str("obs")); JV q = JV::obj(); q.set("id", JV::str("obsreq")); q.set("method", JV::str("fetch")); q.set("params", pr); o.a.set("msg", q); g.p.ops.push_back(o);
	}
	for (int i = 0; i < nops; i++) {
		double x = r.unit();
		if ((int)g.cl.size() < nclients && x < 0.15) g.op_connect();
		else if (x < 0.2 && g.cl.size() > 1) { if ((profile == "c04" || profile == "c15h") && g.cl.size() > 0) { /* keep observer */ GClient *v = g.alive_client(); if (v && v->c == 0) continue; } g.op_close(); }
		else if (x < 0.23 && (int)g.cl.size() < g.max_clients) g.op_connect();
		else if (profile == "c05" && x < 0.30) g.op_violation_then_close();
		else if ((profile == "c04" || profile == "c01") && x < 0.26 && i > 1 && g.p.ops.size() < 200) g.pat_collisions();
		else if ((profile == "c03" || profile == "c05" || profile == "base" || profile == "c14") && x < 0.262 && i > 1) g.pat_owner_removes_then_caller_leaves();
		else if ((profile == "c04" || profile == "base") && x < 0.275 && i > 0) g.pat_fetchonly_owner();
		else if ((profile == "base" || profile == "c02b" || profile == "c01" || profile == "c03") && x < 0.29 && x >= 0.275 && i > 0 && g.p.ops.size() < 300) g.pat_burst();
		else if ((profile == "c14" || profile == "c03") && x < 0.30 && i > 1) { if (r.chance(0.4)) g.pat_retry_after_timeout(); else g.pat_double_expiry(); }
		else if ((profile == "c03" || profile == "c05" || profile == "c02b") && x < 0.315 && i > 2) g.pat_caller_reset_races_reply();
		else if (profile == "c08" && x < 0.31 && i > 0) { if (r.chance(0.3)) g.pat_rights_cross(); else g.pat_rights(); }
		else if ((profile == "c11" || profile == "c11x") && x < 0.33 && !faulty_cs.empty()) {
			// a fault on a member of the faulty set, or an aborted connection attempt
			std::vector<int> fc(faulty_cs.begin(), faulty_cs.end()); int c = fc[r.below(fc.size())];
			double y = r.unit(); Op o;
			if (y < 0.30) { o = g.mk("stall", c); o.a.set("n", JV::num((double)(r.chance(0.6) ? 0 : r.below(300)))); }
			else if (y < 0.45) { o = g.mk("sockerr", c); o.a.set("dir", JV::str(r.chance(0.6) ? "w" : "r")); static const int er[] = {32, 104, 110, 113}; o.a.set("errno", JV::num(er[r.below(4)])); }
			else if (y < 0.55) { o = g.mk("send", c); static const char *bad[] = {"hello", "\x01\x02garbage", "{\"id\":1,", "[1,2", "}"}; o.a.set("text", JV::str(bad[r.below(5)])); for (auto &gc : g.cl) if (gc.c == c) gc.alive = false; }
			else if (y < 0.62) { o = g.mk("send", c); uint32_t L = (uint32_t)g_variant.max_message + 1 + (uint32_t)r.below(1000); std::string b; b += (char)(L >> 24); b += (char)(L >> 16); b += (char)(L >> 8); b += (char)L; o.a.set("hex", JV::str(hexenc(b))); for (auto &gc : g.cl) if (gc.c == c) { if (gc.tr == "ws") o.k = "advance"; gc.alive = false; } }
			else if (y < 0.70) { o = g.mk("drain", c); o.a.set("n", JV::num((double)(1 + r.below(400)))); }
			else { o = g.mk("acceptfail"); static const int er[] = {103, 24, 23, 105, 12, 71, 4, 104}; o.a.set("errno", JV::num(er[r.below(8)])); o.a.set("tr", JV::str(r.chance(0.6) ? "raw" : r.chance(0.5) ? "ws" : "uds")); }
			o.dt = g.pick_dt(); o.hold = false;
			// a connection attempt that arrives while the shortage lasts: it stays in the accept queue behind the failure and must be served once the shortage is over
			bool queued_behind = o.k == "acceptfail" && o.a.gets("tr") == "raw" && (o.a.geti("errno") == 24 || o.a.geti("errno") == 23 || o.a.geti("errno") == 105 || o.a.geti("errno") == 12) && (int)g.cl.size() < g.max_clients + 2 && r.chance(0.5);
			if (queued_behind) o.hold = true;
			g.p.ops.push_back(o);
			if (queued_behind) {
				g.op_connect(true); Op &co = g.p.ops.back(); co.a.put("ip", JV::str("127.0.0.1")); co.dt = 0; co.hold = false;
				g.emit(g.cl.back().c, "info", JV::obj());
			}
		}
		else if ((profile == "c05" || profile == "c07" || profile == "c14" || profile == "base") && x >= 0.245 && x < 0.255) {
			Op o = g.mk("spurious", -1); double y = r.unit();
			if (y < 0.5) { GClient *v = g.alive_client(); if (v) o.c = v->c; o.a.set("what", JV::str("conn")); }
			else if (y < 0.75) { o.a.set("what", JV::str("listen")); o.a.set("tr", JV::str(r.chance(0.5) ? "raw" : r.chance(0.5) ? "ws" : "uds")); }
			else o.a.set("what", JV::str("timer"));
			o.dt = g.pick_dt(); g.p.ops.push_back(o);
		}
		else if ((profile == "c07" || profile == "base") && x >= 0.255 && x < 0.262 && i > 0) { Op o = g.mk("epollintr"); o.a.set("n", JV::num((double)(1 + r.below(2)))); o.dt = g.pick_dt(); g.p.ops.push_back(o); }
		else if ((profile == "c05" || profile == "c07") && x < 0.245) { Op o = g.mk("closeeintr"); o.a.set("n", JV::num((double)(1 + r.below(3)))); g.p.ops.push_back(o); }
		else if (inject_res && x < 0.27) { Op o = g.mk(r.chance(0.6) ? "timerfail" : "epolladdfail"); static const int errs[] = {24, 23, 12, 28}; o.a.set("errno", JV::num(errs[r.below(4)])); g.p.ops.push_back(o); }
		else if (profile == "c11x" && x < 0.6 && !faulty_cs.empty()) {
			// an impaired peer works on elements that its own fetch-all matches
			std::vector<int> fc(faulty_cs.begin(), faulty_cs.end()); int c = fc[r.below(fc.size())];
			std::string path = "fx/" + std::to_string(c) + "/" + std::to_string(r.below(4));
			double y = r.unit(); JV pr = JV::obj(); pr.set("path", JV::str(path));
			const char *m = y < 0.55 ? "add" : y < 0.8 ? "change" : "remove";
			if (y < 0.8) pr.set("value", g.fresh_value());
			Op o = g.mk("send", c); o.a.set("msg", g.request(m, pr, false)); o.dt = g.pick_dt(); o.hold = false; g.p.ops.push_back(o);
		}
		else g.op_request();
	}
	if (profile == "c11") {
		// a faulty peer's messages arrive one per event-loop turn (DESIGN.md 5.2): the daemon may drop it while processing any of them
		std::set<int> faulted;
		for (size_t i = 0; i < g.p.ops.size(); i++) {
			Op &o = g.p.ops[i];
			if (o.c < 0 || !faulty_cs.count(o.c)) continue;
			if ((o.k == "connect" && o.a.getb("faulty")) || o.k == "stall" || o.k == "drain" || o.k == "wcap" || o.k == "sockerr") faulted.insert(o.c);
			// (a request that was turned into a padded text of exactly the maximum size is looked at as the request it is)
			if (o.k == "send" && o.a.has("text") && !o.a.has("msg")) { JV q; if (json_parse(o.a.gets("text"), q) && (q.t == JV::Obj || q.t == JV::Arr)) { for (size_t k = 0; k < o.a.o.size(); k++) if (o.a.o[k].first == "text") { o.a.o.erase(o.a.o.begin() + (long)k); break; } o.a.put("msg", q); } }
			// once its send path is impaired a peer's own add may be aborted half way (some subscribers see add+remove, others nothing): not modelled, so it asks for something else
			// (plan order is not time order: a send that is spread over time lets a later stall take effect before the peer's following messages arrive, so every add of such a
			// peer except the one of its set-up, id "xa<n>", is replaced - not only those behind the fault in the plan)
			bool setup_add = o.k == "send" && o.a.has("msg") && o.a.get("msg")->t == JV::Obj && o.a.get("msg")->gets("id").compare(0, 2, "xa") == 0;
			if (!setup_add && o.k == "send" && o.a.has("msg") && o.a.get("msg")->t == JV::Obj && o.a.get("msg")->gets("method") == "add" && i > 3) {
				JV m = JV::obj(); const JV *id = o.a.get("msg")->get("id"); if (id) m.set("id", *id); m.set("method", JV::str("info")); m.set("params", JV::obj()); o.a.put("msg", m);
			}
			o.hold = false; if (i > 0) g.p.ops[i - 1].hold = false;
			if (o.k == "send" && o.a.has("msg") && o.a.get("msg")->t == JV::Arr && !o.a.get("msg")->a.empty()) { JV first = o.a.get("msg")->a[0]; o.a.put("msg", first); }
		}
	}
	if (profile == "c07" && r.chance(0.4)) {
		// termination at an arbitrary point: between batches or inside one
		Op o = g.mk("sigterm"); if (r.chance(0.5)) o.a.set("at_call", JV::num((double)(1 + r.below(40))));
		size_t pos = g.p.ops.size() > 3 ? 3 + r.below(g.p.ops.size() - 2) : g.p.ops.size();
		g.p.ops.insert(g.p.ops.begin() + (long)std::min(pos, g.p.ops.size()), o);
	}
	return g.p;
}


// ------------------------------------------------------------------ hostile JSON-RPC (ledger mode) and raw byte streams
struct HGen {
	Rng &r; uint64_t ctr = 0; int maxmsg;
	std::vector<std::string> paths;
	explicit HGen(Rng &rr) : r(rr), maxmsg(g_variant.max_message) {}
	std::string istr(const char *p) { return std::string(p) + std::to_string(++ctr); }
	JV weird_number() {
		static const char *raws[] = {"0", "-0", "1", "-1", "1.5", "-2.25", "2147483647", "2147483648", "-2147483649", "4294967296", "9007199254740993", "1e300", "-1e300", "1e-300", "0.001", "0.0009", "1E2", "12345678901234567890", "3e9", "1e10", "1.0", "5e-1"};
		return JV::numraw(raws[r.below(sizeof raws / sizeof *raws)]);
	}
	std::string weird_string() {
		switch (r.below(12)) {
		case 0: return "";
		case 1: return std::string(1 + r.below(130), 'A' + (char)r.below(26));
		case 2: return "%s%s%n%x";
		case 3: return "\xc3\xa9\xe2\x82\xac";
		case 4: return "\xff\xfe";
		case 5: return "a\"b\\c\n";
		case 6: return std::string(95 + r.below(10), 'n');
		case 7: return paths.empty() ? "p" : paths[r.below(paths.size())];
		case 8: return "caseInsensitive";
		case 9: return "\x01\x02";
		default: return istr("s");
		}
	}
	JV any_value(int depth = 0) {
		switch (r.below(depth > 3 ? 6 : 9)) {
		case 0: return JV::null();
		case 1: return JV::boolean(r.chance(0.5));
		case 2: return weird_number();
		case 3: return JV::str(weird_string());
		case 4: return JV::num((double)r.below(100));
		case 5: return JV::str(istr("v"));
		case 6: { JV a = JV::arr(); int n = (int)r.below(4); for (int i = 0; i < n; i++) a.push(any_value(depth + 1)); return a; }
		case 7: { JV o = JV::obj(); int n = (int)r.below(4); for (int i = 0; i < n; i++) o.set(r.chance(0.5) ? weird_string() : istr("k"), any_value(depth + 1)); return o; }
		default: { JV v = JV::num(1); for (int i = 0; i < 30 + (int)r.below(40); i++) { JV a = JV::arr(); a.push(v); v = a; } return v; }
		}
	}
	JV weird_id() {
		switch (r.below(10)) {
		case 0: return weird_number();
		case 1: return JV::str(weird_string());
		case 2: return JV::null();
		case 3: return JV::boolean(true);
		case 4: return JV::arr().push(JV::num(1));
		case 5: return JV::obj();
		case 6: return JV::num((double)(++ctr));
		default: return JV::str(istr("h"));
		}
	}
	std::string vary_case(const std::string &k) { std::string s = k; if (r.chance(0.08)) for (auto &c : s) if (r.chance(0.5)) c = (char)toupper((unsigned char)c); return s; }
	JV rule_obj() {
		JV o = JV::obj();
		static const char *ms[] = {"equals", "equalsNot", "startsWith", "endsWith", "contains", "containsAllOf", "caseInsensitive", "caseInsensitive", "Equals", "nosuch", "match"};
		int n = (int)r.below(5);
		if (r.chance(0.05)) n = 13 + (int)r.below(3);
		for (int i = 0; i < n; i++) {
			const char *m = ms[r.below(11)];
			if (strcmp(m, "caseInsensitive") == 0) o.set(m, r.chance(0.7) ? JV::boolean(r.chance(0.5)) : any_value());
			else if (strcmp(m, "containsAllOf") == 0 && r.chance(0.8)) { JV a = JV::arr(); int k = (int)r.below(4); for (int j = 0; j < k; j++) a.push(r.chance(0.85) ? JV::str(weird_string()) : any_value()); o.set(m, a); }
			else o.set(m, r.chance(0.8) ? JV::str(weird_string()) : any_value());
		}
		return o;
	}
	JV params_for(const std::string &method) {
		if (r.chance(0.05)) return any_value();
		JV p = JV::obj();
		auto maybe = [&](const char *k, std::function<JV()> good, double pg = 0.8) { if (r.chance(0.75)) p.set(vary_case(k), r.chance(pg) ? good() : any_value()); };
		auto pathv = [&]() { return JV::str(r.chance(0.8) && !paths.empty() ? paths[r.below(paths.size())] : weird_string()); };
		if (method == "add" || method == "remove" || method == "change" || method == "set" || method == "call") maybe("path", pathv, 0.9);
		if (method == "add" || method == "change" || method == "set") maybe("value", [&]() { return any_value(); });
		if (method == "call") maybe("args", [&]() { return any_value(); });
		if (method == "add" || method == "set" || method == "call") if (r.chance(0.3)) p.set("timeout", r.chance(0.7) ? weird_number() : any_value());
		if (method == "add" && r.chance(0.2)) p.set("fetchOnly", r.chance(0.7) ? JV::boolean(r.chance(0.5)) : any_value());
		if (method == "add" && r.chance(0.2)) { JV a = JV::obj(); a.set("fetchGroups", any_value()); a.set(r.chance(0.5) ? "setGroups" : "callGroups", any_value()); p.set("access", r.chance(0.8) ? a : any_value()); }
		if (method == "fetch" || method == "unfetch") maybe("id", [&]() { return r.chance(0.5) ? JV::str("f" + std::to_string(r.below(4))) : JV::num((double)r.below(4)); }, 0.8);
		if (method == "fetch" || method == "get") if (r.chance(0.7)) p.set("path", r.chance(0.9) ? rule_obj() : any_value());
		if (method == "fetch" && r.chance(0.05)) p.set("match", any_value());
		if (method == "config") maybe("name", [&]() { return JV::str(weird_string()); }, 0.9);
		if (method == "authenticate" || method == "passwd") { maybe("user", [&]() { return JV::str(weird_string()); }); maybe("password", [&]() { return JV::str(weird_string()); }); }
		if (r.chance(0.1)) p.set(weird_string(), any_value());
		if (r.chance(0.05) && !p.o.empty()) p.o.push_back(p.o[r.below(p.o.size())]); // duplicated member
		return p;
	}
	JV rpc() {
		static const char *ms[] = {"add", "add", "remove", "change", "set", "call", "fetch", "fetch", "unfetch", "get", "config", "info", "authenticate", "passwd"};
		JV q = JV::obj();
		std::vector<std::pair<std::string, JV>> mem;
		double x = r.unit();
		if (x < 0.07) { // response object
			if (r.chance(0.8)) mem.emplace_back("id", r.chance(0.7) ? JV::str(istr("resp")) : weird_id());
			mem.emplace_back(r.chance(0.5) ? "result" : "error", any_value());
		} else {
			std::string m = ms[r.below(14)];
			if (r.chance(0.85)) mem.emplace_back("id", r.chance(0.6) ? JV::str(istr("q")) : weird_id());
			if (r.chance(0.95)) mem.emplace_back("method", r.chance(0.9) ? JV::str(m) : (r.chance(0.5) ? JV::str(weird_string()) : any_value()));
			if (r.chance(0.9)) mem.emplace_back("params", params_for(m));
			if (r.chance(0.03)) mem.emplace_back("id", weird_id());
		}
		for (size_t i = mem.size(); i > 1; i--) if (r.chance(0.3)) std::swap(mem[i - 1], mem[r.below(i)]);
		for (auto &kv : mem) q.set(kv.first, kv.second);
		return q;
	}
	std::string message_text() {
		double x = r.unit();
		std::string t;
		if (x < 0.72) t = rpc().dump();
		else if (x < 0.84) { JV a = JV::arr(); int n = (int)r.below(5); for (int i = 0; i < n; i++) a.push(r.chance(0.9) ? rpc() : any_value()); t = a.dump(); }
		else if (x < 0.88) t = any_value().dump();
		else if (x < 0.93) { t = rpc().dump(); t = t.substr(0, r.below(t.size() + 1)); }
		else if (x < 0.96) { t = rpc().dump(); if (!t.empty()) t[r.below(t.size())] = (char)r.below(256); }
		else { size_t n = r.below(40); for (size_t i = 0; i < n; i++) t += (char)r.below(256); }
		return t;
	}
};

Plan gen_hostile(const std::string &profile, uint64_t seed, const JV &opts) {
	Gen g(seed);
	g.p.profile = profile; g.p.seed = seed;
	swarm_common(g, profile);
	Rng &r = g.r;
	HGen h(r);
	base_paths(g); h.paths = g.paths;
	bool bytes_too = profile == "c06";
	JV &hd = g.p.hdr;
	hd.set("mode", JV::str("ledger"));
	hd.set("fill", JV::num((double)r.below(5)));
	hd.set("shuffle", JV::num(r.chance(0.5) ? 0.0 : r.unit()));
	JV argv = JV::arr(); if (r.chance(0.7)) argv.push(JV::str("-f")); hd.set("argv", argv);
	hd.set("end", JV::str(r.chance(0.2) ? "sigterm" : "close"));
	hd.set("canary_prop", JV::str(opts.gets("prop", "C06")));
	hd.set("memprop", JV::str(opts.gets("memprop", "C06")));
	int nclients = 1 + (int)r.below(4);
	int nops = r.chance(0.5) ? 3 + (int)r.below(8) : 8 + (int)r.below(r.chance(0.15) ? 120 : 30);
	std::vector<int> kind; // 0 json-rpc, 1 raw bytes, 2 http/ws bytes
	for (int i = 0; i < nclients; i++) {
		Op o = g.mk("connect", g.next_client);
		GClient gc; gc.c = g.next_client++;
		int kd = 0;
		if (bytes_too) { double x = r.unit(); kd = x < 0.45 ? 0 : x < 0.7 ? 1 : 2; }
		kind.push_back(kd);
		gc.tr = kd == 2 ? "ws" : (kd == 1 ? (r.chance(0.8) ? "raw" : "uds") : (r.chance(g.p_ws) ? "ws" : r.chance(0.2) ? "uds" : "raw"));
		o.a.set("tr", JV::str(gc.tr));
		o.a.set("ip", JV::str(r.chance(0.8) ? "127.0.0.1" : "2001:db8::1"));
		JV pol = JV::obj(); static const char *modes[] = {"result", "result", "error", "never"}; pol.set("mode", JV::str(modes[r.below(4)]));
		pol.set("delay", JV::num(r.chance(0.7) ? 0 : 1000000)); o.a.set("policy", pol);
		if (r.chance(0.4)) o.a.set("rdcap", JV::num((double)(1 + r.below(r.chance(0.5) ? 5 : 80))));
		if (kd != 0) o.a.set("noexpect", JV::boolean(true));
		if (kd == 2) o.a.set("nohs", JV::boolean(true));
		if (r.chance(0.06)) o.a.set("epolladd", JV::num(r.chance(0.6) ? 28 : 12));   // the event loop cannot take the new connection (ENOSPC / ENOMEM from epoll_ctl)
		if (r.chance(0.06)) { JV cf = JV::obj(); cf.set("n", JV::num((double)(1 + r.below(8)))); static const int er[] = {105, 12, 22, 92, 9}; cf.set("errno", JV::num(er[r.below(4)])); o.a.set("cfgfail", cf); }   // one of the calls that configure the accepted socket fails
		o.dt = g.pick_dt(); o.hold = r.chance(g.p_hold);
		g.p.ops.push_back(o); g.cl.push_back(gc);
	}
	auto http_bytes = [&]() {
		std::string s;
		static const char *meth[] = {"GET", "GET", "GET", "POST", "CONNECT", "PUT", "G\xc3T", ""};
		static const char *tgt[] = {"/api/jet/", "/api/jet/", "/api/jet/x?y=1", "/api/jet", "/", "/other", "*", "http://h/api/jet/", "/api/jet/\x01", ""};
		static const char *ver[] = {"HTTP/1.1", "HTTP/1.1", "HTTP/1.0", "HTTP/2.0", "HTTP/1.", "HTP/1.1", ""};
		s = std::string(meth[r.below(8)]) + " " + tgt[r.below(10)] + " " + ver[r.below(7)] + "\r\n";
		static const char *hdrs[] = {"Host: x\r\n", "Upgrade: websocket\r\n", "Connection: Upgrade\r\n", "Connection: keep-alive, Upgrade\r\n", "Sec-WebSocket-Key: dGhlIHNhbXBsZSBub25jZQ==\r\n", "Sec-WebSocket-Key: short\r\n", "Sec-WebSocket-Version: 13\r\n", "Sec-WebSocket-Version: 8\r\n", "Sec-WebSocket-Protocol: jet\r\n", "Sec-WebSocket-Protocol: chat, jet\r\n", "Sec-WebSocket-Protocol: chat\r\n", "Sec-WebSocket-Extensions: permessage-deflate; client_max_window_bits\r\n", "Content-Length: 5\r\n", "Transfer-Encoding: chunked\r\n", "X: y\r\n", "Broken header\r\n", ": empty\r\n"};
		int n = (int)r.below(9);
		for (int i = 0; i < n; i++) s += hdrs[r.below(17)];
		if (r.chance(0.1)) s += "X-Long: " + std::string(100 + r.below(600), 'x') + "\r\n";
		if (r.chance(0.85)) s += "\r\n";
		if (r.chance(0.2) && !s.empty()) s[r.below(s.size())] = (char)r.below(256);
		if (r.chance(0.2)) s.resize(r.below(s.size() + 1));
		return s;
	};
	auto ws_bytes = [&]() {
		static const int ops[] = {0, 1, 1, 1, 2, 8, 9, 9, 10, 3, 7, 11, 15};
		int op = ops[r.below(13)];
		size_t len; switch (r.below(8)) { case 0: len = 0; break; case 1: len = 125; break; case 2: len = 126; break; case 3: len = 127; break; case 4: len = (size_t)h.maxmsg; break; case 5: len = (size_t)h.maxmsg + 1; break; default: len = r.below(60); }
		std::string pl;
		if (op == 1 && r.chance(0.6)) pl = h.message_text(); else { for (size_t i = 0; i < len; i++) pl += (char)(r.chance(0.8) ? 'a' + r.below(26) : r.below(256)); }
		if (op == 8 && r.chance(0.7)) { static const int codes[] = {1000, 1001, 1002, 1003, 1004, 1005, 1006, 1007, 1011, 1012, 1015, 1016, 2999, 3000, 4999, 5000, 0, 999, 65535}; int c = codes[r.below(19)]; pl = std::string() + (char)(c >> 8) + (char)c + (r.chance(0.5) ? "bye" : r.chance(0.5) ? "\xff\xfe" : ""); if (r.chance(0.1)) pl = "x"; }
		std::string f = ws_frame(op, pl, r.chance(0.85), r.chance(0.92), (uint32_t)r.next(), r.chance(0.93) ? 0 : (int)r.below(8), r.chance(0.9) ? 0 : 1 + (int)r.below(2));
		if (r.chance(0.03)) { f = std::string("\x81\xff", 2) + std::string("\xff\xff\xff\xff\xff\xff\xff\xff", 8) + "abcd"; }
		return f;
	};
	std::vector<bool> upgraded(nclients, false);
	for (int i = 0; i < nops; i++) {
		int ci = (int)r.below(nclients);
		GClient &gc = g.cl[ci];
		if (!gc.alive) continue;
		double x = r.unit();
		if (x < 0.05) { if (r.chance(0.2)) { Op ce = g.mk("closeeintr"); ce.a.set("n", JV::num(1)); g.p.ops.push_back(ce); } Op o = g.mk("close", gc.c); o.a.set("how", JV::str(r.chance(0.6) ? "fin" : r.chance(0.5) ? "hup" : "rst")); o.dt = g.pick_dt(); if (r.chance(0.4)) o.a.set("epipe_after", JV::num((double)r.below(3))); g.p.ops.push_back(o); gc.alive = false; continue; }
		if (x < 0.09 && kind[ci] != 1 && (kind[ci] == 0 ? gc.tr == "ws" : upgraded[ci])) {
			// several pings (or requests) and the end of the connection arrive together; the peer is gone, so the kernel refuses the daemon's writes after the first few
			std::string b; int n = 2 + (int)r.below(3);
			for (int k = 0; k < n; k++) b += r.chance(0.7) ? ws_frame(9, std::string(r.below(20), 'p'), true, true, (uint32_t)r.next()) : ws_frame(1, "{\"id\":" + std::to_string(9000 + k) + ",\"method\":\"info\"}", true, true, (uint32_t)r.next());
			Op o = g.mk("send", gc.c); o.a.set("hex", JV::str(hexenc(b))); o.dt = g.pick_dt(); o.hold = true; g.p.ops.push_back(o);
			Op c = g.mk("close", gc.c); c.a.set("how", JV::str(r.chance(0.7) ? "fin" : "hup")); c.a.set("epipe_after", JV::num((double)r.below(3))); c.dt = 0; g.p.ops.push_back(c); gc.alive = false; continue;
		}
		Op o = g.mk("send", gc.c);
		if (kind[ci] == 0) {
			std::string t = h.message_text();
			if ((int)t.size() > h.maxmsg && r.chance(0.9)) t = h.rpc().dump().substr(0, h.maxmsg);
			if (valid_utf8(t)) o.a.set("text", JV::str(t)); else o.a.set("texthex", JV::str(hexenc(t)));
		} else if (kind[ci] == 1) {
			std::string b;
			switch (r.below(7)) {
			case 0: b = std::string("\0\0\0\0", 4); break;
			case 1: b = raw_frame(h.message_text()); break;
			case 2: { uint32_t L = r.chance(0.5) ? (uint32_t)h.maxmsg + (uint32_t)r.below(3) - 1 : 0xffffffffu; b = std::string() + (char)(L >> 24) + (char)(L >> 16) + (char)(L >> 8) + (char)L; b += std::string(r.below(600), 'z'); break; }
			case 3: { std::string t = h.message_text(); b = raw_frame(t); if (b.size() > 4) b.resize(4 + r.below(b.size() - 4)); break; }
			case 4: { std::string t(h.maxmsg, ' '); std::string m = h.rpc().dump(); if (m.size() < t.size()) t.replace(0, m.size(), m); b = raw_frame(t); break; }
			default: { size_t n = 1 + r.below(40); for (size_t k = 0; k < n; k++) b += (char)r.below(256); }
			}
			o.a.set("hex", JV::str(hexenc(b)));
		} else {
			std::string b;
			if (!upgraded[ci]) { if (r.chance(0.6)) { b = ws_handshake("/api/jet/", "dGhlIHNhbXBsZSBub25jZQ=="); upgraded[ci] = true; } else b = http_bytes(); }
			else b = ws_bytes();
			o.a.set("hex", JV::str(hexenc(b)));
		}
		g.finish_send(o);
		g.p.ops.push_back(o);
	}
	return g.p;
}


// ------------------------------------------------------------------ HTTP front door (c13) and WebSocket conformance (c12)
struct HsParts { std::string method = "GET", target = "/api/jet/", version = "HTTP/1.1"; std::vector<std::string> headers; std::string key; bool offers_jet = true; };

static std::string vary_name(Rng &r, const std::string &n) {
	std::string o = n;
	switch (r.below(5)) { case 0: for (auto &c : o) c = (char)tolower((unsigned char)c); break; case 1: for (auto &c : o) c = (char)toupper((unsigned char)c); break; default: break; }
	return o;
}

static HsParts valid_handshake(Rng &r) {
	HsParts h;
	std::string raw; for (int i = 0; i < 16; i++) raw += (char)r.below(256);
	h.key = b64(raw);
	if (r.chance(0.05)) h.version = r.chance(0.5) ? "HTTP/1.2" : "HTTP/2.0";
	std::vector<std::string> hs;
	hs.push_back(vary_name(r, "Host") + ": jet.example:11123");
	static const char *upv[] = {"websocket", "websocket", "WebSocket", "WEBSOCKET"};
	hs.push_back(vary_name(r, "Upgrade") + ": " + upv[r.below(4)]);
	static const char *cv[] = {"Upgrade", "Upgrade", "upgrade", "keep-alive, Upgrade", "Upgrade, keep-alive"};
	hs.push_back(vary_name(r, "Connection") + ": " + cv[r.below(5)]);
	hs.push_back(vary_name(r, "Sec-WebSocket-Key") + ": " + h.key);
	hs.push_back(vary_name(r, "Sec-WebSocket-Version") + ": 13");
	switch (r.below(8)) {
	case 5: hs.push_back(vary_name(r, "Sec-WebSocket-Protocol") + ": jet"); hs.push_back(vary_name(r, "Sec-WebSocket-Protocol") + (r.chance(0.5) ? ": chat" : ": superchat, chat")); break;   // several fields are one list (RFC 6455 11.3.4); the shuffle below decides which comes first
	case 0: hs.push_back(vary_name(r, "Sec-WebSocket-Protocol") + ": chat, jet"); break;
	case 1: hs.push_back(vary_name(r, "Sec-WebSocket-Protocol") + ": jet, chat"); break;
	case 2: hs.push_back(vary_name(r, "Sec-WebSocket-Protocol") + ": chat"); hs.push_back(vary_name(r, "Sec-WebSocket-Protocol") + ": jet"); break;
	case 3: hs.push_back(vary_name(r, "Sec-WebSocket-Protocol") + ": superchat,jet,chat"); break;
	case 4: { static const char *ows[] = {"jet , chat", "chat ,jet", "jet\t, chat", "chat , jet ,x", "chat,\tjet"}; hs.push_back(vary_name(r, "Sec-WebSocket-Protocol") + ": " + ows[r.below(5)]); break; }   // optional whitespace around list commas (RFC 7230 section 7)
	default: hs.push_back(vary_name(r, "Sec-WebSocket-Protocol") + ": jet"); break;
	}
	// optional whitespace around field values is not part of the value (RFC 7230 section 3.2.4)
	for (auto &l : hs) {
		if (r.chance(0.12)) { size_t c = l.find(": "); if (c != std::string::npos) l.replace(c, 2, r.chance(0.4) ? ":" : r.chance(0.5) ? ":  " : ":\t"); }
		if (r.chance(0.1)) l += r.chance(0.6) ? " " : r.chance(0.5) ? "\t" : "  ";
	}
	static const char *extra[] = {"Origin: http://example.com", "Pragma: no-cache", "Cache-Control: no-cache", "User-Agent: sim/1.0 (x; y)", "Accept-Language: de,en;q=0.8", "X-Empty:", "Cookie: a=b; c=d", "Sec-WebSocket-Extensions: x-unknown-ext"};
	int ne = (int)r.below(4); for (int i = 0; i < ne; i++) hs.push_back(extra[r.below(8)]);
	for (size_t i = hs.size(); i > 1; i--) std::swap(hs[i - 1], hs[r.below(i)]);
	h.headers = hs;
	return h;
}

static std::string hs_text(const HsParts &h, bool terminate = true) {
	std::string s = h.method + " " + h.target + " " + h.version + "\r\n";
	for (auto &l : h.headers) s += l + "\r\n";
	if (terminate) s += "\r\n";
	return s;
}

static void drop_header(HsParts &h, const std::string &lname) {
	for (size_t i = 0; i < h.headers.size();) { std::string n = h.headers[i].substr(0, h.headers[i].find(':')); for (auto &c : n) c = (char)tolower((unsigned char)c); if (n == lname) h.headers.erase(h.headers.begin() + (long)i); else i++; }
}
static void set_header(HsParts &h, const std::string &lname, const std::string &line) { drop_header(h, lname); h.headers.push_back(line); }

// a request that is clearly not a valid upgrade to the configured target; returns the bytes, *defect names the single reason
static std::string invalid_request(Rng &r, std::string &defect, int maxline) {
	HsParts h = valid_handshake(r);
	drop_header(h, "sec-websocket-extensions");
	switch (r.below(19)) {
	case 17: case 18: {
		// a required header is present but empty, and the header that follows it (one the server does not know) carries what would have been an acceptable value
		bool ver = r.chance(0.5);
		drop_header(h, ver ? "sec-websocket-version" : "sec-websocket-key");
		std::vector<std::string> hs2;
		for (auto &l : h.headers) hs2.push_back(l);
		size_t pos = r.below(hs2.size() + 1);
		std::string empty_line = ver ? (r.chance(0.5) ? "Sec-WebSocket-Version:" : "Sec-WebSocket-Version: ") : (r.chance(0.5) ? "Sec-WebSocket-Key:" : "Sec-WebSocket-Key: ");
		std::string next_line = ver ? (r.chance(0.5) ? "X-Client-Revision: 13" : "X-Api-Level: 13") : "Cookie: sessionid=0123456789abcd";
		hs2.insert(hs2.begin() + (long)pos, next_line); hs2.insert(hs2.begin() + (long)pos, empty_line);
		h.headers = hs2;
		defect = ver ? "empty Sec-WebSocket-Version" : "empty Sec-WebSocket-Key"; break; }
	case 16: {
		// line endings the parser tolerates (bare LF): validity is debatable, so there is no expectation on the answer - only on memory safety and cleanliness
		std::string s = h.method + " " + h.target + " " + h.version + (r.chance(0.7) ? "\n" : "\r\n");
		for (auto &x : h.headers) s += x + (r.chance(0.5) ? "\n" : "\r\n");
		s += r.chance(0.5) ? "\n" : "\r\n";
		defect = "ANY:bare LF line endings"; return s; }
	case 0: { static const char *t[] = {"/", "/other", "/api/jet", "/api", "/API/JET/", "/api/jetx/", "/api/je/t/", "/api//jet/", "/x/api/jet/"}; h.target = t[r.below(9)]; defect = "wrong path " + h.target; break; }
	case 1: { static const char *m[] = {"POST", "PUT", "DELETE", "HEAD", "OPTIONS", "PATCH"}; h.method = m[r.below(6)]; defect = "wrong method " + h.method; break; }
	case 2: { h.version = r.chance(0.7) ? "HTTP/1.0" : "HTTP/0.9"; defect = "wrong version " + h.version; break; }
	case 3: {
		static const char *lines[] = {"GET /api/jet/", "GET  HTTP/1.1", "/api/jet/ HTTP/1.1", "GET /api/jet/ HTTP/1.1 x", "G\x01T /api/jet/ HTTP/1.1", "get /api/jet/ HTTP/1.1", "GET /api/jet/ HTTQ/1.1", "GET /api/jet/ HTTP/1.", "GET /api/jet/ HTTP/x.1", "GET\t/api/jet/\tHTTP/1.1", "GET /api/ jet/ HTTP/1.1", "\x01\x02\x03", "GET /api/jet/ HTTP/11"};
		std::string l = lines[r.below(13)]; std::string s = l + "\r\n"; for (auto &x : h.headers) s += x + "\r\n"; s += "\r\n"; defect = "malformed request line"; return s; }
	case 4: { static const char *bad[] = {"Broken header line", "Na me: v", "\x7f: v", "Bad\x01Name: x", "NoColonAtAll"}; h.headers.insert(h.headers.begin() + (long)r.below(h.headers.size() + 1), bad[r.below(5)]); defect = "malformed header"; break; }
	case 5: { size_t n = (size_t)maxline + r.below(3) * 50 + (r.chance(0.3) ? 0 : 1 + r.below(300)); if (r.chance(0.5)) { h.target = "/api/jet/" + std::string(n, 'a'); defect = "over-long request line"; } else { h.headers.insert(h.headers.begin() + (long)r.below(h.headers.size() + 1), "X-Long: " + std::string(n, 'x')); defect = "over-long header line"; } break; }
	case 6: drop_header(h, "upgrade"); defect = "no Upgrade header"; break;
	case 7: if (r.chance(0.5)) drop_header(h, "connection"); else set_header(h, "connection", "Connection: keep-alive"); defect = "no Connection: Upgrade"; break;
	case 8: { static const char *u[] = {"h2c", "TLS/1.0", "websocketx", "web"}; set_header(h, "upgrade", std::string("Upgrade: ") + u[r.below(4)]); defect = "Upgrade header names another protocol"; break; }
	case 9: drop_header(h, "sec-websocket-key"); defect = "no Sec-WebSocket-Key"; break;
	case 10: drop_header(h, "sec-websocket-version"); defect = "no Sec-WebSocket-Version"; break;
	case 11: { static const char *v[] = {"8", "12", "7", "130", "1", "0", "14"}; set_header(h, "sec-websocket-version", std::string("Sec-WebSocket-Version: ") + v[r.below(7)]); defect = "unsupported Sec-WebSocket-Version"; break; }
	case 12: { static const char *k[] = {"short", "", "dGhlIHNhbXBsZSBub25jZQ==AAAA", "dGhlIHNhbXBsZQ=="}; set_header(h, "sec-websocket-key", std::string("Sec-WebSocket-Key: ") + k[r.below(4)]); defect = "Sec-WebSocket-Key of wrong length"; break; }
	case 13: { std::string s = hs_text(h); size_t eol = s.find("\r\n"); size_t pos = r.below(eol); s[pos] = (char)(r.chance(0.5) ? 1 : (r.chance(0.5) ? 0x7f : 0)); defect = "request line corrupted at byte " + std::to_string(pos); return s; }
	case 14: { std::string s = hs_text(h); size_t cut = r.below(s.size() - 1); if (r.chance(0.3)) { size_t eol = s.find("\r\n"); cut = r.below(eol + 2); } s.resize(cut); defect = "request truncated after " + std::to_string(cut) + " bytes"; return s; }
	default: { std::string s = hs_text(h); size_t cut = r.below(s.size() - 1); s.resize(cut); defect = "request truncated after " + std::to_string(cut) + " bytes"; return s; }
	}
	return hs_text(h);
}

Plan gen_http(const std::string &profile, uint64_t seed, const JV &opts) {
	Gen g(seed);
	g.p.profile = profile; g.p.seed = seed; g.profile = profile;
	swarm_common(g, profile);
	base_paths(g);
	Rng &r = g.r;
	JV &h = g.p.hdr;
	bool c13 = profile == "c13";
	h.set("mode", JV::str("exact"));
	h.set("fill", JV::num((double)r.below(5)));
	h.set("shuffle", JV::num(r.chance(0.5) ? 0.0 : r.unit()));
	JV argv = JV::arr(); if (r.chance(0.7)) argv.push(JV::str("-f")); if (r.chance(0.15)) argv.push(JV::str("-l")); h.set("argv", argv);
	h.set("end", JV::str(r.chance(0.3) ? "sigterm" : "close"));
	h.set("canary_prop", JV::str(c13 ? "C13" : "C12")); h.set("memprop", JV::str(c13 ? "C13" : "C12")); h.set("baseprop", JV::str(c13 ? "C13" : "C12"));
	h.set("wsstrict", JV::boolean(true));
	g.p_batch = 0; g.p_noid = 0.1;
	g.w.clear(); g.w["add"] = 3; g.w["change"] = 2; g.w["remove"] = 1; g.w["fetch"] = 2; g.w["get"] = 1; g.w["set"] = 1; g.w["call"] = 0.5; g.w["info"] = 0.3; g.w["config"] = 0.3; g.w["unfetch"] = 0.5;
	int maxline = g_variant.max_message;
	if (c13) {
		int healthy = (int)r.below(3);
		for (int i = 0; i < healthy; i++) g.op_connect();
		int nbad = 1 + (int)r.below(4);
		int nops = 2 + (int)r.below(10);
		std::vector<int> bad;
		for (int i = 0; i < nbad + nops; i++) {
			if ((int)bad.size() < nbad && (i < nbad ? r.chance(0.7) : true) ) {
				std::string defect; std::string bytes = invalid_request(r, defect, maxline);
				int c = g.next_client++;
				Op o = g.mk("connect", c); o.a.set("tr", JV::str("ws")); o.a.set("nohs", JV::boolean(true)); o.a.set("noexpect", JV::boolean(true));
				static const char *ips[] = {"127.0.0.1", "::1", "192.0.2.7", "2001:db8::1"}; o.a.set("ip", JV::str(ips[r.below(4)]));
				JV pol = JV::obj(); pol.set("expect_http", JV::str(defect.rfind("ANY:", 0) == 0 ? "any" : "reject")); pol.set("defect", JV::str(ascii_safe(defect))); o.a.set("policy", pol);
				if (r.chance(0.4)) o.a.set("rdcap", JV::num((double)(1 + r.below(r.chance(0.5) ? 7 : 64))));
				o.dt = g.pick_dt(); o.hold = r.chance(g.p_hold); g.p.ops.push_back(o);
				Op sd = g.mk("send", c); sd.a.set("hex", JV::str(hexenc(bytes)));
				JV sg = g.seg_for(bytes.size()); if (sg.t != JV::Null) { sd.a.set("seg", sg); sd.a.set("gap", JV::num((double)(r.chance(0.5) ? 0 : 1000))); }
				sd.dt = g.pick_dt(); sd.hold = r.chance(g.p_hold); g.p.ops.push_back(sd);
				bool truncated = defect.find("truncated") != std::string::npos;
				if (truncated ? r.chance(0.85) : r.chance(0.3)) { Op cz = g.mk("close", c); double x = r.unit(); cz.a.set("how", JV::str(x < 0.5 ? "fin" : x < 0.75 ? "hup" : "rst")); cz.dt = g.pick_dt(); g.p.ops.push_back(cz); }
				bad.push_back(c);
			} else if (healthy > 0) g.op_request();
		}
		return g.p;
	}
	// c12: valid upgrades in many spellings, then frame sequences over the whole header space
	int nws = 1 + (int)r.below(3), nraw = (int)r.below(2);
	for (int i = 0; i < nraw; i++) g.op_connect(true);
	struct WsC { int c; bool alive; };
	std::vector<WsC> ws; std::vector<int> slow;
	for (int i = 0; i < nws; i++) {
		HsParts hp = valid_handshake(r);
		int c = g.next_client++;
		Op o = g.mk("connect", c); o.a.set("tr", JV::str("ws"));
		if (r.chance(0.1)) hp.target = "/api/jet/?token=1";
		std::string txt = hs_text(hp);
		o.a.set("hshex", JV::str(hexenc(txt)));
		JV pol = JV::obj(); pol.set("wskey", JV::str(hp.key)); pol.set("offers_jet", JV::boolean(true)); pol.set("mode", JV::str("result")); pol.set("delay", JV::num(0));
		if (txt.find("x-unknown-ext") != std::string::npos) pol.set("offers_ext", JV::boolean(true));
		o.a.set("policy", pol);
		JV sg = g.seg_for(txt.size()); if (sg.t != JV::Null) o.a.set("seg", sg);
		if (r.chance(0.4)) o.a.set("rdcap", JV::num((double)(1 + r.below(r.chance(0.5) ? 9 : 64))));
		o.dt = g.pick_dt(); o.hold = r.chance(g.p_hold);
		g.p.ops.push_back(o);
		GClient gc; gc.c = c; gc.tr = "ws"; g.cl.push_back(gc);
		ws.push_back({c, true});
		if (i > 0 && r.chance(0.2)) { slow.push_back(c); Op st = g.mk("stall", c); st.a.set("n", JV::num((double)(160 + r.below(120)))); g.p.ops.push_back(st); }
	}
	int nops = r.chance(0.5) ? 3 + (int)r.below(8) : 8 + (int)r.below(40);
	for (int i = 0; i < nops; i++) {
		double x = r.unit();
		if (x < 0.4) { g.op_request(); continue; }
		std::vector<size_t> al; for (size_t k = 0; k < ws.size(); k++) if (ws[k].alive) al.push_back(k);
		if (al.empty()) { g.op_request(); continue; }
		WsC &w = ws[al[r.below(al.size())]];
		Op o = g.mk("send", w.c);
		auto rnd_payload = [&](size_t n) { std::string s; for (size_t k = 0; k < n; k++) s += (char)r.below(256); return s; };
		auto lens = [&]() -> size_t { switch (r.below(8)) { case 0: return 0; case 1: return 1; case 2: return 125; case 3: return 124; default: return r.below(60); } };
		bool terminal = false;
		double y = r.unit();
		if (y < 0.30) { o.a.set("wsop", JV::num(9)); o.a.set("texthex", JV::str(hexenc(rnd_payload(lens())))); if (r.chance(0.15)) o.a.set("lenenc", JV::num(1 + (double)r.below(2))); }
		else if (y < 0.38) { o.a.set("wsop", JV::num(10)); o.a.set("texthex", JV::str(hexenc(rnd_payload(lens())))); }
		else if (y < 0.55) {
			// close frames of every class
			static const int codes[] = {1000, 1001, 1002, 1003, 1007, 1008, 1009, 1010, 1011, 3000, 4000, 4999, 1004, 1005, 1006, 1015, 1016, 2000, 2999, 5000, 0, 999, 65535, 1012, 1013, 1014};
			std::string pl;
			double z = r.unit();
			if (z < 0.15) pl = "";
			else if (z < 0.22) pl = "x";
			else { int code = codes[r.below(26)]; pl += (char)(code >> 8); pl += (char)code; double q = r.unit(); if (q < 0.4) pl += "bye"; else if (q < 0.55) pl += "gr\xc3\xbc\xc3\x9f""e \xe2\x82\xac"; else if (q < 0.75) pl += r.chance(0.5) ? "\xff\xfe" : "ab\xc3"; else if (q < 0.8) pl += std::string(123, 'r'); }
			o.a.set("wsop", JV::num(8)); o.a.set("texthex", JV::str(hexenc(pl))); terminal = true;
		}
		else if (y < 0.62) { o.a.set("wsop", JV::num(r.chance(0.5) ? 9 : (r.chance(0.5) ? 10 : 8))); o.a.set("texthex", JV::str(hexenc(rnd_payload(126 + r.below(r.chance(0.5) ? 3 : 300))))); terminal = true; }   // oversized control frame
		else if (y < 0.68) { o.a.set("wsop", JV::num(r.chance(0.5) ? 9 : (r.chance(0.5) ? 10 : 8))); o.a.set("nofin", JV::boolean(true)); o.a.set("texthex", JV::str(hexenc(rnd_payload(lens())))); terminal = true; } // fragmented control frame
		else if (y < 0.76) { static const int ro[] = {3, 4, 5, 6, 7, 11, 12, 13, 14, 15}; o.a.set("wsop", JV::num(ro[r.below(10)])); o.a.set("texthex", JV::str(hexenc(rnd_payload(lens())))); if (r.chance(0.3)) o.a.set("nofin", JV::boolean(true)); terminal = true; }
		else if (y < 0.84) { o.a.set("rsv", JV::num(1 + (double)r.below(7))); o.a.set("wsop", JV::num(r.chance(0.6) ? 1 : 9)); o.a.set("text", JV::str("{\"id\":1,\"method\":\"info\"}")); terminal = true; }
		else if (y < 0.91) { o.a.set("nomask", JV::boolean(true)); o.a.set("wsop", JV::num(r.chance(0.7) ? 1 : (r.chance(0.5) ? 9 : 8))); o.a.set("text", JV::str(r.chance(0.2) ? "" : "{\"id\":2,\"method\":\"info\"}")); terminal = true; }
		else if (y < 0.96) { o.a.set("wsop", JV::num(r.chance(0.8) ? 1 : 2)); o.a.set("nofin", JV::boolean(true)); o.a.set("text", JV::str("{\"id\":3,")); terminal = true; }     // start of a fragmented data message
		else if (y < 0.98) { o.a.set("wsop", JV::num(0)); o.a.set("text", JV::str("tail")); if (r.chance(0.5)) o.a.set("nofin", JV::boolean(true)); terminal = true; }       // continuation without a start
		else { o.a.set("wsop", JV::num(2)); o.a.set("texthex", JV::str(hexenc(rnd_payload(lens())))); terminal = true; }
		g.finish_send(o);
		g.p.ops.push_back(o);
		if (!slow.empty() && r.chance(0.25)) { int sc = slow[r.below(slow.size())]; Op d = g.mk(r.chance(0.5) ? "drain" : "wcap", sc); d.a.set("n", JV::num((double)(1 + r.below(60)))); g.p.ops.push_back(d); }
		if (terminal) {
			w.alive = false; for (auto &gc : g.cl) if (gc.c == w.c) gc.alive = false;
			for (auto it = g.owner_of.begin(); it != g.owner_of.end();) if (it->second == w.c) it = g.owner_of.erase(it); else ++it;
			if (r.chance(0.3)) { Op cz = g.mk("close", w.c); cz.a.set("how", JV::str("fin")); cz.dt = g.pick_dt() + 1000; g.p.ops.push_back(cz); }
		}
	}
	return g.p;
}

// ------------------------------------------------------------------ c09: canonical plan A; derive_b() produces the re-segmented, re-batched twin
Plan gen_c09(const std::string &profile, uint64_t seed, const JV &opts) {
	(void)opts;
	Gen g(seed);
	g.p.profile = profile; g.p.seed = seed; g.profile = profile;
	swarm_common(g, profile);
	base_paths(g);
	Rng &r = g.r;
	HGen hg(r); hg.paths = g.paths;
	JV &h = g.p.hdr;
	h.set("mode", JV::str("ledger"));
	h.set("fill", JV::num((double)r.below(5)));
	h.set("shuffle", JV::num(0));
	JV argv = JV::arr(); argv.push(JV::str("-f")); h.set("argv", argv);
	h.set("end", JV::str("close"));
	h.set("canary_prop", JV::str("C09")); h.set("memprop", JV::str("C09"));
	h.set("want_out", JV::boolean(true)); h.set("end_close_serial", JV::boolean(true));
	g.p_hold = 0; g.seg_style = 0; g.p_batch = r.chance(0.5) ? 0 : 0.1; g.p_noid = 0.1;
	g.w["unknown"] = 0.3; g.w["noparams"] = 0.2; g.w["strayreply"] = 0.3; g.w["set"] = 1.5; g.w["call"] = 1; g.w["fetch"] = 2; g.w["get"] = 1; g.w["add"] = 3; g.w["change"] = 2;
	// (odd amounts: a message must never fall on the very instant a deadline expires - which of the two the event loop sees first is then a matter of
	// the order of readiness events between a timer and a connection, which this property does not fix)
	static const uint64_t dts[] = {0, 0, 0, 1003, 50021, 1000033, 100000007ULL, 2000000011ULL, 6000000013ULL};
	auto dt = [&]() { return dts[r.below(r.chance(0.8) ? 6 : 9)]; };
	int nclients = 1 + (int)r.below(4);
	int maxmsg = g_variant.max_message;
	for (int i = 0; i < nclients; i++) {
		GClient gc; gc.c = g.next_client++; gc.tr = r.chance(0.35) ? "ws" : r.chance(0.3) ? "uds" : "raw";
		Op o = g.mk("connect", gc.c); o.a.set("tr", JV::str(gc.tr)); o.a.set("ip", JV::str(r.chance(0.8) ? "127.0.0.1" : "::1"));
		JV pol = JV::obj(); static const char *modes[] = {"result", "result", "error", "never"}; pol.set("mode", JV::str(modes[r.below(4)]));
		static const uint64_t dl[] = {500, 1500, 500500, 4999999500ULL, 5000000500ULL}; pol.set("delay", JV::num((double)dl[r.below(r.chance(0.8) ? 3 : 5)]));
		o.a.set("policy", pol); o.dt = dt();
		g.p.ops.push_back(o); g.cl.push_back(gc);
	}
	int nops = r.chance(0.5) ? 3 + (int)r.below(8) : 8 + (int)r.below(r.chance(0.15) ? 100 : 30);
	for (int i = 0; i < nops; i++) {
		GClient *gc = g.alive_client(); if (!gc) break;
		double x = r.unit();
		// a peer on the local socket that closes is reported as readable + hang-up (that is what Linux does for AF_UNIX), a TCP peer as readable only
		if (x < 0.04 || (gc->tr == "uds" && x < 0.09)) { Op o = g.mk("close", gc->c); o.a.set("how", JV::str(gc->tr == "uds" ? "hup" : "fin")); o.dt = r.chance(0.5) ? 0 : dt(); g.p.ops.push_back(o); gc->alive = false; for (auto it = g.owner_of.begin(); it != g.owner_of.end();) if (it->second == gc->c) it = g.owner_of.erase(it); else ++it; continue; }
		if (x < 0.55) { size_t before = g.p.ops.size(); g.op_request(); for (size_t k = before; k < g.p.ops.size(); k++) { g.p.ops[k].dt = dt(); g.p.ops[k].hold = false; } continue; }
		if (x < 0.58 && g.p.ops.size() < 400) {
			// many short requests of one connection in a row: more bytes than several read buffers hold
			size_t target = (size_t)maxmsg * (3 + r.below(12)), total = 0; int n = 0;
			while (total < target && n < 300) {
				JV pr = JV::obj(); JV q;
				switch (r.below(3)) { case 0: q = g.request("info", JV::obj(), false); break; case 1: pr.set("name", JV::str("b" + std::to_string(n))); q = g.request("config", pr, false); break; default: pr.set("path", JV::str(g.pick_path())); pr.set("value", g.fresh_value()); q = g.request("change", pr, false); break; }
				Op bo = g.mk("send", gc->c); bo.a.set("msg", q); bo.a.set("burst", JV::boolean(true)); bo.dt = n == 0 ? dt() : 0; bo.hold = false;
				g.p.ops.push_back(bo); total += q.dump().size() + 6; n++;
			}
			continue;
		}
		Op o = g.mk("send", gc->c);
		bool raw = gc->tr != "ws";
		double y = r.unit();
		if (y < 0.35) { std::string t = hg.message_text(); if ((int)t.size() > maxmsg) t = t.substr(0, (size_t)maxmsg); if (valid_utf8(t)) o.a.set("text", JV::str(t)); else o.a.set("texthex", JV::str(hexenc(t))); }
		else if (y < 0.55) {
			// a JSON text cut short; what follows it in the stream (or lies behind it in the read buffer) would complete it
			std::string j = hg.rpc().dump(); if ((int)j.size() > maxmsg) j = j.substr(0, (size_t)maxmsg);
			size_t k = 1 + r.below(j.size() > 1 ? j.size() - 1 : 1);
			std::string a = j.substr(0, k), b = j.substr(k);
			if (valid_utf8(a)) o.a.set("text", JV::str(a)); else o.a.set("texthex", JV::str(hexenc(a)));
			o.dt = dt(); g.p.ops.push_back(o);
			o = g.mk("send", gc->c);
			if (valid_utf8(b) && !b.empty()) o.a.set("text", JV::str(b)); else o.a.set("texthex", JV::str(hexenc(b.empty() ? std::string("}") : b)));
		}
		else if (y < 0.70 && raw) {
			std::string b;
			switch (r.below(5)) {
			case 0: b = std::string("\0\0\0\0", 4); if (r.chance(0.5)) b += b; break;                                // zero lengths are skipped
			case 1: { std::string t((size_t)maxmsg, ' '); std::string m = hg.rpc().dump(); if (m.size() < t.size()) t.replace(0, m.size(), m); b = raw_frame(t); break; } // fills the read buffer exactly
			case 2: { std::string t((size_t)maxmsg - 1 - r.below(8), ' '); std::string m = hg.rpc().dump(); if (m.size() < t.size()) t.replace(t.size() - m.size(), m.size(), m); b = raw_frame(t); break; }
			case 3: { uint32_t L = (uint32_t)maxmsg + 1 + (uint32_t)r.below(3); b = std::string() + (char)(L >> 24) + (char)(L >> 16) + (char)(L >> 8) + (char)L; b += std::string(r.below(20), 'z'); gc->alive = false; break; } // above the maximum: ends the connection
			default: { std::string m = hg.rpc().dump(); b = std::string("\0\0\0\0", 4) + raw_frame(m); break; }
			}
			o.a.set("hex", JV::str(hexenc(b)));
			if (!gc->alive) for (auto it = g.owner_of.begin(); it != g.owner_of.end();) if (it->second == gc->c) it = g.owner_of.erase(it); else ++it;
		}
		else { JV pr = JV::obj(); pr.set("path", JV::str(g.pick_path())); pr.set("value", g.fresh_value()); o.a.set("msg", g.request(r.chance(0.5) ? "add" : "change", pr)); }
		o.dt = dt();
		g.p.ops.push_back(o);
	}
	return g.p;
}

// ------------------------------------------------------------------ c10: many outgoing frames of many sizes to victims whose send path is drawn; oracle at the writev seam
Plan gen_c10(const std::string &profile, uint64_t seed, const JV &opts) {
	(void)opts;
	Gen g(seed);
	g.p.profile = profile; g.p.seed = seed; g.profile = profile;
	swarm_common(g, profile);
	base_paths(g);
	Rng &r = g.r;
	JV &h = g.p.hdr;
	h.set("mode", JV::str("none"));
	h.set("fill", JV::num((double)r.below(5)));
	h.set("shuffle", JV::num(r.chance(0.5) ? 0.0 : r.unit()));
	JV argv = JV::arr(); argv.push(JV::str("-f")); h.set("argv", argv);
	h.set("end", JV::str(r.chance(0.2) ? "sigterm" : "close"));
	h.set("canary_prop", JV::str("C10")); h.set("memprop", JV::str("C10")); h.set("baseprop", JV::str("C10"));
	g.p_batch = 0.05; g.p_noid = 0.05; g.p_hold = r.chance(0.5) ? 0 : r.unit() * 0.5;
	int maxmsg = g_variant.max_message;
	auto big_value = [&]() {
		size_t n; switch (r.below(6)) { case 0: n = 1 + r.below(20); break; case 1: n = 100 + r.below(30); break; case 2: n = (size_t)maxmsg / 2; break; case 3: n = (size_t)maxmsg - 90 - r.below(20); break; default: n = 20 + r.below((size_t)maxmsg / 3); }
		if ((int)n > maxmsg - 80) n = (size_t)maxmsg - 80;
		std::string v; for (size_t i = 0; i < n; i++) v += (char)('a' + (g.valctr + i) % 26); g.valctr++;
		return JV::str(v);
	};
	int nvict = 1 + (int)r.below(2), nhealthy = 1 + (int)r.below(3);
	std::vector<int> victims, healthy;
	for (int i = 0; i < nvict + nhealthy; i++) {
		bool vict = i < nvict;
		int c = g.next_client++;
		GClient gc; gc.c = c; double x = r.unit(); gc.tr = x < 0.35 ? "ws" : x < 0.45 ? "uds" : "raw";
		Op o = g.mk("connect", c); o.a.set("tr", JV::str(gc.tr)); o.a.set("ip", JV::str("127.0.0.1"));
		JV pol = JV::obj(); static const char *modes[] = {"result", "result", "error", "never"}; pol.set("mode", JV::str(modes[r.below(4)])); pol.set("delay", JV::num(r.chance(0.7) ? 0 : 1000000)); o.a.set("policy", pol);
		if (vict && r.chance(0.45)) o.a.set("wboundary", JV::boolean(true));
		if (vict) { o.a.set("faulty", JV::boolean(true)); if (r.chance(0.3)) o.a.set("wcap", JV::num((double)(1 + r.below(r.chance(0.5) ? 7 : 60)))); if (r.chance(0.2)) o.a.set("space", JV::num((double)r.below(300))); }
		if (r.chance(0.3)) o.a.set("rdcap", JV::num((double)(1 + r.below(64))));
		o.dt = g.pick_dt(); g.p.ops.push_back(o); g.cl.push_back(gc);
		(vict ? victims : healthy).push_back(c);
		if (vict) {
			// the victim subscribes to everything and may own elements (so that routed requests are delivered to it)
			Op f = g.mk("send", c); JV pr = JV::obj(); pr.set("id", JV::str("vf" + std::to_string(c))); JV q = JV::obj(); q.set("id", JV::str("vq" + std::to_string(c))); q.set("method", JV::str("fetch")); q.set("params", pr); f.a.set("msg", q); g.p.ops.push_back(f);
			if (r.chance(0.5)) { Op a = g.mk("send", c); JV p2 = JV::obj(); std::string path = "victim/" + std::to_string(c); p2.set("path", JV::str(path)); if (r.chance(0.6)) p2.set("value", JV::num(1)); JV q2 = JV::obj(); q2.set("id", JV::str("va" + std::to_string(c))); q2.set("method", JV::str("add")); q2.set("params", p2); a.a.set("msg", q2); g.p.ops.push_back(a); g.owner_of[path] = c; g.is_state[path] = p2.has("value"); g.paths.push_back(path); }
		}
	}
	int nops = r.chance(0.4) ? 6 + (int)r.below(10) : 15 + (int)r.below(r.chance(0.2) ? 200 : 60);
	for (int i = 0; i < nops; i++) {
		double x = r.unit();
		int v = victims[r.below(victims.size())];
		if (x < 0.30) {
			// send-path behaviour of a victim
			Op o; double y = r.unit();
			if (y < 0.30) { o = g.mk("stall", v); static const int left[] = {0, 0, 1, 2, 3, 4, 5, 7, 30, 100, 300}; o.a.set("n", JV::num((double)left[r.below(11)])); }
			else if (y < 0.60) { o = g.mk("drain", v); o.a.set("n", JV::num((double)(r.chance(0.5) ? 1 + r.below(7) : 20 + r.below(600)))); }
			else if (y < 0.80) { o = g.mk("resume", v); }
			else if (y < 0.93) { o = g.mk("wcap", v); o.a.set("n", JV::num((double)(r.chance(0.3) ? 0 : 1 + r.below(r.chance(0.5) ? 6 : 80)))); }
			else if (y < 0.97) { o = g.mk("sockerr", v); o.a.set("dir", JV::str("w")); o.a.set("errno", JV::num(r.chance(0.5) ? 32 : 104)); }
			else { o = g.mk("close", v); o.a.set("how", JV::str(r.chance(0.5) ? "fin" : "rst")); }
			o.dt = g.pick_dt(); o.hold = r.chance(g.p_hold);
			g.p.ops.push_back(o);
			continue;
		}
		int hc = healthy[r.below(healthy.size())];
		Op o = g.mk("send", x < 0.40 ? v : hc);
		JV pr = JV::obj(); JV msg;
		double y = r.unit();
		if (x < 0.40) {
			// the victim's own requests: answered on the constrained path (large get results, info, zero-length keep-alives)
			if (y < 0.5) msg = g.request("get", JV::obj(), false);
			else if (y < 0.7) msg = g.request("info", JV::obj(), false);
			else if (y < 0.8 && g.cl[0].tr != "ws") { o.a.set("hex", JV::str("00000000")); }
			else { pr.set("id", JV::str("x" + std::to_string(++g.idctr))); msg = g.request("fetch", pr, false); }
		} else if (y < 0.35) { pr.set("path", JV::str(g.pick_path())); pr.set("value", big_value()); msg = g.request("add", pr); if (!g.owner_of.count(pr.gets("path"))) { g.owner_of[pr.gets("path")] = hc; g.is_state[pr.gets("path")] = true; } }
		else if (y < 0.75) { std::string path = g.existing_path(true, false); if (g.owner_of.count(path)) o.c = g.owner_of[path]; pr.set("path", JV::str(path)); pr.set("value", big_value()); msg = g.request("change", pr); }
		else if (y < 0.82) { std::string path = g.existing_path(true, true); if (g.owner_of.count(path)) o.c = g.owner_of[path]; pr.set("path", JV::str(path)); msg = g.request("remove", pr); g.owner_of.erase(path); }
		else { std::string path = "victim/" + std::to_string(v); bool st = g.is_state.count(path) ? g.is_state[path] : true; pr.set("path", JV::str(path)); if (st) pr.set("value", big_value()); else pr.set("args", big_value()); msg = g.request(st ? "set" : "call", pr); }
		if (!o.a.has("hex")) o.a.set("msg", msg);
		g.finish_send(o);
		g.p.ops.push_back(o);
	}
	// parked output, then "readable" and "writable" become ready in the same batch while the input produces no output of its own
	if (r.chance(0.5)) for (int v : victims) {
		Op st = g.mk("stall", v); st.a.set("n", JV::num((double)r.below(3))); g.p.ops.push_back(st);
		int hc = healthy[r.below(healthy.size())];
		for (int k = 0; k < 2 + (int)r.below(3); k++) { Op o = g.mk("send", hc); JV pr = JV::obj(); std::string path = "edge/" + std::to_string(hc); pr.set("path", JV::str(path)); pr.set("value", big_value()); o.a.set("msg", g.request(k == 0 ? "add" : "change", pr, false)); g.p.ops.push_back(o); }
		bool raw = true; for (auto &gc : g.cl) if (gc.c == v && gc.tr == "ws") raw = false;
		Op in = g.mk("send", v);
		if (raw) in.a.set("hex", JV::str(r.chance(0.5) ? "00000000" : "0000")); else { in.a.set("wsop", JV::num(10)); in.a.set("text", JV::str("")); }
		in.hold = true; g.p.ops.push_back(in);
		Op rs = g.mk("resume", v); rs.hold = false; g.p.ops.push_back(rs);
		Op adv = g.mk("advance"); adv.dt = 1000000; g.p.ops.push_back(adv);
	}
	// let the victims drain at the end in most runs so that parked output has to be flushed
	for (int v : victims) if (r.chance(0.8)) { Op o = g.mk("wcap", v); o.a.set("n", JV::num(0)); g.p.ops.push_back(o); Op o2 = g.mk("resume", v); o2.dt = 1000; g.p.ops.push_back(o2); }
	return g.p;
}

// ------------------------------------------------------------------ c20: authenticate / passwd sequences over all user kinds
Plan gen_c20(const std::string &profile, uint64_t seed, const JV &opts) {
	(void)opts;
	Gen g(seed);
	g.p.profile = profile; g.p.seed = seed; g.profile = profile;
	swarm_common(g, profile);
	base_paths(g);
	Rng &r = g.r;
	JV &h = g.p.hdr;
	h.set("mode", JV::str("exact"));
	h.set("fill", JV::num((double)r.below(5)));
	h.set("shuffle", JV::num(0));
	h.set("end", JV::str("close"));
	h.set("canary_prop", JV::str("C20")); h.set("memprop", JV::str("C20")); h.set("baseprop", JV::str("C20")); h.set("relabel", JV::str("C20"));
	h.set("want_filelog", JV::boolean(true));
	// users of every kind
	JV users = JV::obj();
	struct U { std::string name, pw; bool admin, ro, nopw; std::string hash; };
	std::vector<U> us;
	int nu = 2 + (int)r.below(4);
	// DES crypt(3) only looks at the first eight characters: every password differs from every other one there
	auto mkpw = [&](const std::string &tag) { std::string s2; for (int k = 0; k < 7; k++) s2 += "abcdefghijklmnopqrstuvwxyz0123456789"[r.below(36)]; return s2 + "-" + tag + "-" + std::to_string(1000000 + r.below(1000000)); };
	for (int i = 0; i < nu; i++) {
		U u; u.name = std::string("user") + (char)('a' + i); u.pw = mkpw(u.name);
		u.admin = i == 0 ? r.chance(0.7) : r.chance(0.2); u.ro = i == 1 ? r.chance(0.6) : r.chance(0.15); u.nopw = r.chance(0.08);
		JV o = JV::obj();
		if (!u.nopw) o.set("password", JV::str(u.pw));
		static const char *hs[] = {"des", "des", "md5", "md5", "sha256", "sha512"}; u.hash = hs[r.below(r.chance(0.8) ? 4 : 6)]; o.set("hash", JV::str(u.hash));
		for (const char *k : {"fetchGroups", "setGroups", "callGroups"}) { JV a = JV::arr(); int n = (int)r.below(3); for (int j = 0; j < n; j++) a.push(JV::str("g" + std::to_string(r.below(4)))); o.set(k, a); }
		if (u.admin) o.set("admin", JV::boolean(true));
		if (u.ro) o.set("readonly", JV::boolean(true));
		users.set(u.name, o); us.push_back(u);
	}
	// now and then the daemon is started the way an init script does it: in the background (it then moves to "/") and with a file name relative to where it was started
	bool relative = r.chance(0.15);
	JV c = JV::obj(); c.set("path", JV::str(relative ? "/srv/cjet/passwd.json" : "/etc/cjet/passwd.json")); c.set("users", users);
	if (r.chance(0.1)) c.set("pad_to", JV::num(4096));
	h.set("creds", c);
	JV argv = JV::arr(); if (!relative) argv.push(JV::str("-f")); argv.push(JV::str("-p")); argv.push(JV::str(relative ? (r.chance(0.5) ? "passwd.json" : "./passwd.json") : "/etc/cjet/passwd.json")); h.set("argv", argv);
	std::map<std::string, std::string> cur; for (auto &u : us) cur[u.name] = u.pw;
	int nclients = 1 + (int)r.below(3);
	std::vector<std::string> who(nclients);   // best-effort: which user each connection is authenticated as
	for (int i = 0; i < nclients; i++) { g.op_connect(); g.p.ops.back().hold = false; }
	int nops = 3 + (int)r.below(9);
	int pwctr = 0;
	for (int i = 0; i < nops; i++) {
		int ci = (int)r.below(nclients);
		GClient &gc = g.cl[ci];
		Op o = g.mk("send", gc.c);
		JV pr = JV::obj();
		double x = r.unit();
		if (x < 0.45 || who[ci].empty()) {
			U &u = us[r.below(us.size())];
			bool right = r.chance(0.75);
			pr.set("user", JV::str(r.chance(0.93) ? u.name : "mallory"));
			pr.set("password", JV::str(right ? cur[u.name] : (r.chance(0.5) ? "x" + u.pw : mkpw("wrong" + std::to_string(++pwctr)))));
			o.a.set("msg", g.request("authenticate", pr, false));
			if (right && !u.nopw && pr.gets("user") == u.name) who[ci] = u.name;
		} else {
			// password change: own account, somebody else's, an unknown or a read-only one
			double y = r.unit();
			std::string target = y < 0.5 ? who[ci] : y < 0.9 ? us[r.below(us.size())].name : "nobody";
			std::string npw = mkpw(target + std::to_string(++pwctr));
			// an account whose hash is not a DES hash: the new password shares its first eight characters with the old one (DES would not tell them apart; this method must)
			for (auto &u : us) if (u.name == target && u.hash != "des" && cur.count(target) && cur[target].size() > 9 && r.chance(0.3)) npw = cur[target].substr(0, 8) + "+" + std::to_string(++pwctr) + "-" + std::to_string(r.below(100000));
			// where messages may be that long: a passphrase at the limit of what crypt(3) hashes (511 bytes) or beyond it (512 and more)
			if (g_variant.max_message > 2000 && r.chance(0.3)) { size_t L = r.chance(0.4) ? 511 : 512 + r.below(40); while (npw.size() < L) npw += (char)('a' + r.below(26)); }
			pr.set("user", JV::str(target)); pr.set("password", JV::str(npw));
			o.a.set("msg", g.request("passwd", pr, false));
			// what the reference model will decide is not tracked here; follow-up authentications try both passwords anyway
			g.p.ops.push_back(o); g.p.ops.back().dt = g.pick_dt();
			for (int k = 0; k < 2; k++) {
				if (!cur.count(target) || !r.chance(0.7)) continue;
				Op a = g.mk("send", g.cl[r.below(nclients)].c);
				JV p2 = JV::obj(); p2.set("user", JV::str(target)); p2.set("password", JV::str(k == 0 ? npw : cur[target]));
				a.a.set("msg", g.request("authenticate", p2, false)); a.dt = g.pick_dt();
				g.p.ops.push_back(a);
			}
			bool allowed = false; for (auto &u : us) if (u.name == target && !u.ro && !u.nopw) for (auto &w : us) if (w.name == who[ci] && (w.admin || w.name == target)) allowed = true;
			if (allowed) cur[target] = npw;
			continue;
		}
		o.dt = g.pick_dt();
		g.p.ops.push_back(o);
	}
	for (auto &o : g.p.ops) o.hold = false;
	return g.p;
}

// ------------------------------------------------------------------ c19: permessage-deflate offers, payloads, fragmentations and damaged streams against the echo harness
Plan gen_c19(const std::string &profile, uint64_t seed, const JV &opts) {
	(void)opts;
	Gen g(seed);
	g.p.profile = profile; g.p.seed = seed; g.profile = profile;
	swarm_common(g, profile);
	Rng &r = g.r;
	JV &h = g.p.hdr;
	h.set("mode", JV::str("none"));
	h.set("fill", JV::num((double)r.below(5)));
	h.set("shuffle", JV::num(r.chance(0.5) ? 0.0 : r.unit()));
	int level = 1 + (int)r.below(3);
	JV argv = JV::arr(); argv.push(JV::str(std::to_string(level))); h.set("argv", argv);
	h.set("end", JV::str(r.chance(0.3) ? "sigterm" : "close"));
	h.set("canary", JV::boolean(false));
	h.set("canary_prop", JV::str("C19")); h.set("memprop", JV::str("C19")); h.set("baseprop", JV::str("C19"));
	int maxmsg = g_variant.max_message;
	auto offer = [&]() {
		std::string s2;
		int n = r.chance(0.08) ? 0 : 1 + (int)r.below(r.chance(0.2) ? 3 : 1);
		for (int i = 0; i < n; i++) {
			if (i) s2 += r.chance(0.5) ? ", " : ",";
			s2 += "permessage-deflate";
			std::vector<std::string> ps;
			if (r.chance(0.4)) ps.push_back("server_no_context_takeover");
			if (r.chance(0.4)) ps.push_back("client_no_context_takeover");
			if (r.chance(0.5)) { static const char *v[] = {"8", "9", "10", "11", "12", "13", "14", "15", "15", "7", "16", "0", "abc", "08"}; ps.push_back(std::string("server_max_window_bits=") + v[r.below(r.chance(0.85) ? 9 : 14)]); }
			if (r.chance(0.6)) { static const char *v[] = {"", "=8", "=9", "=10", "=12", "=15", "=15", "=7", "=16", "=x"}; ps.push_back(std::string("client_max_window_bits") + v[r.below(r.chance(0.85) ? 7 : 10)]); }
			if (r.chance(0.05)) ps.push_back("unknown_parameter");
			if (r.chance(0.05) && !ps.empty()) ps.push_back(ps[r.below(ps.size())]);     // repeated parameter: the offer is invalid
			for (size_t k = ps.size(); k > 1; k--) std::swap(ps[k - 1], ps[r.below(k)]);
			for (auto &x : ps) s2 += (r.chance(0.7) ? "; " : ";") + x;
		}
		if (r.chance(0.1)) s2 = s2.empty() ? "x-webkit-deflate-frame" : "x-webkit-deflate-frame, " + s2;
		return s2;
	};
	int nclients = 1 + (int)r.below(3);
	for (int i = 0; i < nclients; i++) {
		int c = g.next_client++;
		std::string raw; for (int k = 0; k < 16; k++) raw += (char)r.below(256);
		std::string key = b64(raw), off = offer();
		std::string extra = off.empty() ? "" : "Sec-WebSocket-Extensions: " + off + "\r\n";
		std::string hs = ws_handshake("/api/jet/", key, "jet", extra);
		Op o = g.mk("connect", c); o.a.set("tr", JV::str("ws")); o.a.set("ip", JV::str("127.0.0.1")); o.a.set("hshex", JV::str(hexenc(hs)));
		JV pol = JV::obj(); pol.set("c19", JV::boolean(true)); pol.set("wskey", JV::str(key)); pol.set("offerhex", JV::str(hexenc(off))); o.a.set("policy", pol);
		o.a.set("noexpect", JV::boolean(false));
		JV sg = g.seg_for(hs.size()); if (sg.t != JV::Null) o.a.set("seg", sg);
		if (r.chance(0.4)) o.a.set("rdcap", JV::num((double)(1 + r.below(r.chance(0.5) ? 9 : 90))));
		o.dt = g.pick_dt(); g.p.ops.push_back(o);
		GClient gc; gc.c = c; gc.tr = "ws"; g.cl.push_back(gc);
	}
	int nops = r.chance(0.5) ? 2 + (int)r.below(6) : 6 + (int)r.below(40);
	for (int i = 0; i < nops; i++) {
		GClient *gc = g.alive_client(); if (!gc) break;
		double x = r.unit();
		if (x < 0.04) { Op o = g.mk("close", gc->c); o.a.set("how", JV::str(r.chance(0.7) ? "fin" : "rst")); o.dt = g.pick_dt(); g.p.ops.push_back(o); gc->alive = false; continue; }
		if (x < 0.08 && i > 0) { Op o = g.mk("c19", gc->c); o.a.set("stray", JV::boolean(true)); { static const char *vk[] = {"stray", "stray", "rsv23", "ctrl_rsv1", "newstart", "whole_inside", "cont_rsv"}; o.a.set("vkind", JV::str(vk[r.below(7)])); } o.a.set("hex", JV::str(hexenc("stray-" + std::to_string(i)))); o.dt = g.pick_dt(); g.p.ops.push_back(o); gc->alive = false; continue; }
		Op o = g.mk("c19", gc->c);
		std::string m; size_t n;
		switch (r.below(10)) {
		case 0: n = 0; break;
		case 1: n = 1 + r.below(3); break;
		case 2: n = (size_t)maxmsg - 40 - r.below(40); break;
		default: n = 1 + r.below(r.chance(0.3) ? 400 : 80);
		}
		// a configuration with room for them: lengths around the switch to the 64-bit length field, for the compressed and for the uncompressed size
		bool near64k = maxmsg > 66000 && r.chance(0.35);
		if (near64k) n = r.chance(0.5) ? 65536 - 140 + r.below(160) : 65300 + r.below(400);
		switch (near64k ? (r.chance(0.8) ? 0 : 4) : r.below(5)) {
		case 0: for (size_t k = 0; k < n; k++) m += (char)r.below(256); break;                                              // incompressible
		case 1: { char ch = (char)('a' + r.below(26)); if (r.chance(0.4)) n = 500 + r.below(4000); m.assign(n, ch); break; }    // highly repetitive, may inflate far beyond the message limit
		case 2: { std::string unit = "{\"path\":\"a/b\",\"event\":\"change\",\"value\":" + std::to_string(r.below(100)) + "}"; if (r.chance(0.3)) n = 300 + r.below(3000); while (m.size() < n) m += unit; m.resize(n); break; }
		case 3: for (size_t k = 0; k < n; k++) m += (char)("abcd"[r.below(4)]); break;
		default: for (size_t k = 0; k < n; k++) m += (char)(32 + r.below(95)); break;
		}
		o.a.set("hex", JV::str(hexenc(m)));
		if (r.chance(0.3)) o.a.set("bin", JV::boolean(true));
		if (r.chance(0.12)) o.a.set("plain", JV::boolean(true));
		if (r.chance(0.35)) { JV fr = JV::arr(); int nf = 1 + (int)r.below(5); for (int k = 0; k < nf; k++) fr.push(JV::num((double)(r.chance(0.3) ? 0 : 1 + r.below(r.chance(0.5) ? 8 : 300)))); o.a.set("frags", fr); }
		if (o.a.has("frags") && r.chance(0.12)) { o.a.set("omit_last", JV::boolean(true)); gc->alive = false; }
		if (o.a.has("frags") && r.chance(0.2)) o.a.set("ping_inside", JV::boolean(true));
		if (r.chance(0.1)) o.a.set("bfinal", JV::boolean(true));
		if (r.chance(0.08)) { static const char *ck[] = {"flip", "flip", "trunc", "junk"}; o.a.set("corrupt", JV::str(ck[r.below(4)])); o.a.set("cpos", JV::num(r.unit())); gc->alive = r.chance(0.5); }
		JV sg = g.seg_for(m.size() + 8); if (sg.t != JV::Null) { o.a.set("seg", sg); o.a.set("gap", JV::num(0)); }
		o.dt = g.pick_dt(); o.hold = r.chance(g.p_hold);
		g.p.ops.push_back(o);
	}
	return g.p;
}

} // namespace

// the same byte streams and the same order of complete messages, but different read chunks, early prefixes, batch compositions, batch order and buffer garbage
Plan derive_b(const Plan &a) {
	Plan b = a;
	b.ops.clear();
	Rng hr(mix64(a.seed, 0xB0B));
	JV h = JV::obj();
	for (auto &kv : a.hdr.o) {
		if (kv.first == "shuffle") h.set("shuffle", JV::num(hr.chance(0.3) ? 0.0 : hr.unit()));
		else if (kv.first == "fill") h.set("fill", JV::num((double)(((int)kv.second.d + 1 + (int)hr.below(4)) % 5)));
		else if (kv.first == "mode") h.set("mode", JV::str("none"));
		else h.set(kv.first, kv.second);
	}
	b.hdr = h;
	uint64_t uidmax = 0; for (auto &o : a.ops) if (o.uid > uidmax) uidmax = o.uid;
	auto add_seg = [&](Op &o, Rng &r) {
		double x = r.unit();
		if (x < 0.25) o.a.put("seg", JV::str("bytewise"));
		else if (x < 0.85) { JV sg = JV::arr(); int n = 1 + (int)r.below(10); for (int i = 0; i < n; i++) sg.push(JV::num((double)(1 + r.below(r.chance(0.5) ? 5 : 120)))); o.a.put("seg", sg); }
		o.a.put("gap", JV::num(0));
	};
	for (size_t i = 0; i < a.ops.size(); i++) {
		Op o = a.ops[i];
		Rng r(mix64(mix64(a.seed, 0x5E6), o.uid));
		if (o.k == "connect") {
			if (r.chance(0.5)) o.a.put("rdcap", JV::num((double)(1 + r.below(r.chance(0.5) ? 7 : 90))));
			if (o.a.gets("tr") == "ws") add_seg(o, r);
			o.hold = false;   // the order in which peers come into being (accept, WebSocket request line) is part of the preserved order: it decides the order of initial notifications
			// ... but two connections to the same listening socket may well be queued behind one readiness event: the queue keeps their order
			if (i + 1 < a.ops.size() && a.ops[i + 1].k == "connect" && a.ops[i + 1].dt == 0 && a.ops[i + 1].a.gets("tr") == o.a.gets("tr") && a.ops[i + 1].a.gets("ip") == o.a.gets("ip") && o.a.gets("tr") != "ws" && r.chance(0.7)) o.hold = true;
			b.ops.push_back(o);
			continue;
		}
		if (o.k == "send" && o.a.getb("burst")) {
			// a run of complete messages of ONE connection with nothing in between: the canonical execution hands them over one by one, this one all at once
			// (a pipelining client, or a daemon that was busy meanwhile); the order of complete messages is the same
			bool more = i + 1 < a.ops.size() && a.ops[i + 1].k == "send" && a.ops[i + 1].a.getb("burst") && a.ops[i + 1].c == o.c && a.ops[i + 1].dt == 0;
			o.hold = more; o.a.put("seg", JV()); o.a.put("gap", JV::num(0));
			b.ops.push_back(o);
			continue;
		}
		if (o.k == "send") {
			// an early prefix of this message may arrive before the previous message (of another connection) is complete
			bool early = false;
			// a length above the maximum takes effect as soon as the prefix is known, so such a message is "complete" after its first bytes: no early part for it (nor for raw byte strings)
			size_t plen = o.a.has("msg") ? o.a.get("msg")->dump().size() : o.a.has("texthex") ? o.a.gets("texthex").size() / 2 : o.a.gets("text").size();
			bool may_early = !o.a.has("hex") && !o.a.has("cut") && (int)plen + 16 <= g_variant.max_message;
			if (may_early && i > 0 && a.ops[i - 1].k == "send" && a.ops[i - 1].c != o.c && o.dt == 0 && r.chance(0.45) && !b.ops.empty()) {
				double f = 0.05 + r.unit() * 0.9;
				Op pre = o; pre.uid = uidmax + o.uid; pre.a.put("muid", JV::num((double)o.uid)); pre.a.put("pfrac", JV::arr().push(JV::num(0)).push(JV::num(f))); pre.hold = true; pre.dt = 0;
				if (r.chance(0.5)) add_seg(pre, r);
				// insert before the previous op's send (which is the last op pushed, possibly preceded by its own early part)
				size_t pos = b.ops.size() - 1;
				pre.dt = b.ops[pos].dt; b.ops[pos].dt = 0;
				b.ops.insert(b.ops.begin() + (long)pos, pre);
				o.a.put("pfrac", JV::arr().push(JV::num(f)).push(JV::num(1)));
				early = true;
			}
			(void)early;
			add_seg(o, r);
			o.hold = false;
			// the bytes of a connection's last message and its FIN may be reported by one readiness event
			bool with_fin = i + 1 < a.ops.size() && a.ops[i + 1].k == "close" && a.ops[i + 1].c == o.c && a.ops[i + 1].dt == 0 && (a.ops[i + 1].a.gets("how", "fin") == "fin" || a.ops[i + 1].a.gets("how", "fin") == "hup") && r.chance(0.6);
			if (with_fin) { o.hold = true; o.a.put("seg", JV()); o.a.put("gap", JV::num(0)); }
			b.ops.push_back(o);
			if (with_fin) continue;
			if (r.chance(0.15)) { Op rc; rc.k = "rdcap"; rc.c = o.c; rc.uid = 2 * uidmax + o.uid; rc.a.set("n", JV::num((double)r.below(40))); rc.hold = false; b.ops.push_back(rc); }   // never hold across virtual time: a late daemon may legitimately see a reply and an expiry together
			continue;
		}
		o.hold = false;
		b.ops.push_back(o);
	}
	return b;
}

namespace {

} // namespace


// ------------------------------------------------------------------ c15: fixed corpus of short scenarios (every request type, both transports, handshake failure, routed requests, timeouts, disconnects, credentials)
static const char *c15_profiles[] = {"base", "c01", "c03", "c05", "c08", "c12", "c13", "c16", "c14", "c04"};
int c15_corpus_size() { return 48; }
static Plan c15_handmade(int which) {
	Plan p; p.seed = 0xC15000 + (uint64_t)which;
	JV h = JV::obj(); h.set("mode", JV::str("exact")); h.set("fill", JV::num(which % 5)); JV argv = JV::arr(); argv.push(JV::str("-f")); h.set("argv", argv); h.set("end", JV::str("close")); p.hdr = h;
	uint64_t uid = 0; int idc = 0;
	auto conn = [&](int c, const char *tr) { Op o; o.k = "connect"; o.c = c; o.uid = ++uid; o.a.set("tr", JV::str(tr)); o.a.set("ip", JV::str("127.0.0.1")); JV pol = JV::obj(); pol.set("mode", JV::str("result")); pol.set("delay", JV::num(0)); o.a.set("policy", pol); p.ops.push_back(o); };
	auto req = [&](int c, const char *m, JV pr) { Op o; o.k = "send"; o.c = c; o.uid = ++uid; JV q = JV::obj(); q.set("id", JV::str("h" + std::to_string(++idc))); q.set("method", JV::str(m)); q.set("params", pr); o.a.set("msg", q); p.ops.push_back(o); };
	auto P = [](const char *path) { JV pr = JV::obj(); pr.set("path", JV::str(path)); return pr; };
	if (which == 0 || which == 1) {
		// one state, five (then six) matching fetches: the element's fetcher table has to grow
		conn(0, "raw"); conn(1, which == 0 ? "raw" : "ws");
		JV a = P("grow/x"); a.set("value", JV::num(1)); req(0, "add", a);
		for (int k = 0; k < 6; k++) { JV f = JV::obj(); f.set("id", JV::str("g" + std::to_string(k))); if (k % 2) { JV ru = JV::obj(); ru.set("startsWith", JV::str("grow")); f.set("path", ru); } req(k < 3 ? 1 : 0, "fetch", f); }
		JV ch = P("grow/x"); ch.set("value", JV::num(2)); req(0, "change", ch);
		{ JV u = JV::obj(); u.set("id", JV::str("g1")); req(1, "unfetch", u); }
		JV ch2 = P("grow/x"); ch2.set("value", JV::num(3)); req(0, "change", ch2);
		req(0, "remove", P("grow/x"));
	} else if (which == 2) {
		// routed call with a numeric id, reply relayed; then the same with the owner leaving
		conn(0, "raw"); conn(1, "raw");
		req(0, "add", P("m/one"));
		{ Op o; o.k = "send"; o.c = 1; o.uid = ++uid; JV q = JV::obj(); q.set("id", JV::num(77)); q.set("method", JV::str("call")); JV pr = P("m/one"); pr.set("args", JV::arr().push(JV::num(1))); q.set("params", pr); o.a.set("msg", q); p.ops.push_back(o); }
		{ Op po; po.k = "policy"; po.c = 0; po.uid = ++uid; po.a.set("mode", JV::str("never")); p.ops.push_back(po); }
		{ JV pr = P("m/one"); req(1, "call", pr); }
		{ Op c; c.k = "close"; c.c = 0; c.uid = ++uid; c.a.set("how", JV::str("fin")); p.ops.push_back(c); }
	} else if (which == 4 || which == 5) {
		// everything a connection can do a second time: the earlier name, value, fetch and element are replaced or released on the way
		conn(0, which == 4 ? "raw" : "ws"); conn(1, which == 4 ? "ws" : "raw");
		auto cfg = [&](int c, const char *name) { JV pr = JV::obj(); pr.set("name", JV::str(name)); req(c, "config", pr); };
		cfg(0, "first-name"); cfg(0, "second-and-longer-name"); cfg(1, "n1"); cfg(1, "n2");
		{ JV a = P("twice/s"); a.set("value", JV::num(1)); req(0, "add", a); }
		{ JV ch = P("twice/s"); ch.set("value", JV::num(2)); req(0, "change", ch); }
		{ JV ch = P("twice/s"); JV v = JV::obj(); v.set("obj", JV::arr().push(JV::num(1)).push(JV::str("two"))); ch.set("value", v); req(0, "change", ch); }
		{ JV f = JV::obj(); f.set("id", JV::str("tw")); req(1, "fetch", f); }
		{ JV u = JV::obj(); u.set("id", JV::str("tw")); req(1, "unfetch", u); }
		{ JV f = JV::obj(); f.set("id", JV::str("tw")); JV ru = JV::obj(); ru.set("contains", JV::str("wice")); f.set("path", ru); req(1, "fetch", f); }
		req(0, "remove", P("twice/s"));
		{ JV a = P("twice/s"); a.set("value", JV::str("again")); req(0, "add", a); }
		{ JV st = P("twice/s"); st.set("value", JV::num(7)); req(1, "set", st); }
		{ JV st = P("twice/s"); st.set("value", JV::num(8)); req(1, "set", st); }
		{ JV bad = JV::obj(); req(0, "nosuchmethod", bad); }
		cfg(0, "third");
		{ Op c; c.k = "close"; c.c = 0; c.uid = ++uid; c.a.set("how", JV::str("fin")); p.ops.push_back(c); }
	} else {
		// fetch with every matcher, get with a rule, batch
		conn(0, "ws"); conn(1, "raw");
		JV a = P("k/alpha"); a.set("value", JV::str("v")); req(0, "add", a);
		JV ru = JV::obj(); ru.set("startsWith", JV::str("k/")); ru.set("endsWith", JV::str("a")); ru.set("contains", JV::str("alp")); ru.set("containsAllOf", JV::arr().push(JV::str("k")).push(JV::str("ph"))); ru.set("equalsNot", JV::str("x")); ru.set("caseInsensitive", JV::boolean(true));
		{ JV f = JV::obj(); f.set("id", JV::num(5)); f.set("path", ru); req(1, "fetch", f); }
		{ JV g2 = JV::obj(); g2.set("path", ru); req(1, "get", g2); }
		JV ch = P("k/alpha"); ch.set("value", JV::str("w")); req(0, "change", ch);
	}
	return p;
}
Plan c15_scenario(int idx) {
	if (idx >= 46) {
		// password changes under allocation failure: the first short authenticate/passwd plans of the c20 generator that contain a change by an
		// authenticated peer followed by authentications with both passwords (the credential oracle of world_shadow.cpp needs those)
		JV opts = JV::obj(); opts.set("prop", JV::str("C15"));
		Plan best; int found = -1;
		for (uint64_t t = 1; t < 4000 && found < idx - 46; t++) {
			Plan p = gen_c20("c20", mix64(0xC15C20, t) >> 1, opts);
			if (p.ops.size() < 5 || p.ops.size() > 12) continue;
			int first_pw = -1, auth_before = 0, auth_after = 0;
			for (size_t i = 0; i < p.ops.size(); i++) {
				const JV *m = p.ops[i].a.get("msg"); if (!m) continue;
				std::string me = m->gets("method");
				if (me == "passwd" && first_pw < 0 && auth_before > 0) first_pw = (int)i;
				if (me == "authenticate") { if (first_pw < 0) auth_before++; else auth_after++; }
			}
			if (first_pw < 0 || auth_after < 2) continue;
			if (p.hdr.get("creds") && p.hdr.get("creds")->has("pad_to")) continue;
			found++; best = p;
		}
		JV h = JV::obj();
		for (auto &kv : best.hdr.o) if (kv.first != "canary_prop" && kv.first != "memprop" && kv.first != "baseprop" && kv.first != "relabel" && kv.first != "shuffle" && kv.first != "want_filelog") h.set(kv.first, kv.second);
		h.set("canary_prop", JV::str("C15")); h.set("memprop", JV::str("C15")); h.set("baseprop", JV::str("C15")); h.set("relabel", JV::str("C15")); h.set("ledgerprop", JV::str("C15")); h.set("shadowprop", JV::str("C15"));
		best.hdr = h; best.profile = "c15:" + std::to_string(idx);
		return best;
	}
	if (idx >= 40) {
		Plan best = c15_handmade(idx - 40);
		JV h = best.hdr;
		h.set("canary_prop", JV::str("C15")); h.set("memprop", JV::str("C15")); h.set("baseprop", JV::str("C15")); h.set("relabel", JV::str("C15")); h.set("ledgerprop", JV::str("C15")); h.set("shadowprop", JV::str("C15")); h.set("shuffle", JV::num(0));
		best.hdr = h; best.profile = "c15:" + std::to_string(idx);
		return best;
	}
	int np = (int)(sizeof c15_profiles / sizeof *c15_profiles);
	std::string pf = c15_profiles[idx % np];
	int nth = idx / np;          // the nth short plan of that profile
	JV opts = JV::obj(); opts.set("prop", JV::str("C15"));
	Plan best; int found = -1;
	for (uint64_t t = 1; t < 4000; t++) {
		uint64_t seed = mix64(0xC15C0DE, mix64((uint64_t)(idx % np), t)) >> 1;
		Plan p = generate_plan(pf, seed, opts);
		if (p.ops.size() < 4 || p.ops.size() > 14) continue;
		bool has_sigterm = false; for (auto &o : p.ops) if (o.k == "sigterm" || o.k == "timerfail" || o.k == "epolladdfail") has_sigterm = true;
		if (has_sigterm) continue;
		if (++found == nth) { best = p; break; }
	}
	JV h = JV::obj();
	for (auto &kv : best.hdr.o) if (kv.first != "canary_prop" && kv.first != "memprop" && kv.first != "baseprop" && kv.first != "relabel" && kv.first != "shuffle") h.set(kv.first, kv.second);
	h.set("canary_prop", JV::str("C15")); h.set("memprop", JV::str("C15")); h.set("baseprop", JV::str("C15")); h.set("relabel", JV::str("C15")); h.set("ledgerprop", JV::str("C15")); h.set("shadowprop", JV::str("C15")); h.set("shuffle", JV::num(0));
	best.hdr = h; best.profile = "c15:" + std::to_string(idx);
	return best;
}

std::vector<std::string> list_profiles() { return {"base", "c01", "c03", "c04", "c05", "c14", "c02", "c06", "c07", "c08", "c16", "c12", "c13", "c09", "c10", "c11", "c20", "c19"}; }

static Plan generate_plan_inner(const std::string &profile, uint64_t seed, const JV &opts);
Plan generate_plan(const std::string &profile_in, uint64_t seed, const JV &opts) {
	// "<profile>+af": the profile's plan with one to four allocations made to fail after start-up (random multi-fault runs of C15)
	std::string profile = profile_in; bool af = false;
	{ size_t pos = profile.find("+af"); if (pos != std::string::npos) { profile = profile.substr(0, pos); af = true; } }
	Plan p = generate_plan_inner(profile, seed, opts);
	if (af && profile == "c19") {
		// the echo endpoint under allocation failures: what is echoed is not predictable any more, memory safety, reclamation and survival are
		Rng r(mix64(seed, 0xA110CF));
		int nf = r.chance(0.6) ? 1 : 2 + (int)r.below(3);
		uint64_t span = 40 + 30 * (uint64_t)p.ops.size();
		JV rel = JV::arr(); for (int i = 0; i < nf; i++) rel.push(JV::num((double)(1 + r.below(span))));
		p.hdr.put("allocfail_rel", rel);
		std::string pr = opts.gets("prop", "C19");
		p.hdr.put("memprop", JV::str(pr)); p.hdr.put("baseprop", JV::str(pr)); p.hdr.put("canary_prop", JV::str(pr));
		p.profile = profile_in;
	}
	if (af && profile != "c19" && p.hdr.gets("mode", "exact") == "exact") {
		Rng r(mix64(seed, 0xA110CF));
		int nf = r.chance(0.7) ? 1 : 2 + (int)r.below(3);
		uint64_t span = 60 + 25 * (uint64_t)p.ops.size();
		JV rel = JV::arr(); for (int i = 0; i < nf; i++) rel.push(JV::num((double)(1 + r.below(span))));
		p.hdr.put("allocfail_rel", rel); p.hdr.put("shadow", JV::boolean(true));
		std::string ap = opts.gets("afprop", "C15");   // the property whose check runs this plan owns what goes wrong after the failure
		p.hdr.put("relabel_after_fault", JV::str(ap)); p.hdr.put("ledgerprop", JV::str(ap)); p.hdr.put("memprop", JV::str(ap)); p.hdr.put("baseprop", JV::str(ap)); p.hdr.put("canary_prop", JV::str(ap));
		p.hdr.put("shadowprop", JV::str(opts.gets("shadowprop", ap)));
		p.profile = profile_in;
	}
	// a sanitizer report or crash is attributed to the property whose check is running, unless the profile says otherwise
	if (opts.has("memprop") && !p.hdr.has("memprop")) p.hdr.set("memprop", JV::str(opts.gets("memprop")));
	if (opts.has("quiet_rules") && !p.hdr.has("quiet_rules")) p.hdr.set("quiet_rules", *opts.get("quiet_rules"));
	return p;
}
static Plan generate_plan_inner(const std::string &profile, uint64_t seed, const JV &opts) {
	if (profile == "c07s") {
		// start-up with one failing system call (socket, bind, listen, setsockopt, fcntl, getsockname, epoll_create, epoll_ctl, open): either the daemon
		// refuses to start and exits cleanly, or it tolerates the failure and serves; no descriptor or allocation may be lost or released twice either way
		Plan p; p.profile = profile; p.seed = seed; Rng r(seed);
		JV h = JV::obj(); h.set("mode", JV::str("exact")); h.set("fill", JV::num((double)r.below(5)));
		JV argv = JV::arr(); if (r.chance(0.7)) argv.push(JV::str("-f")); if (r.chance(0.3)) argv.push(JV::str("-l")); h.set("argv", argv);
		h.set("end", JV::str("close")); h.set("startup_fail", JV::num((double)(1 + r.below(70))));
		std::string pr = opts.gets("prop", "C07"); h.set("canary_prop", JV::str(pr)); h.set("memprop", JV::str(pr)); h.set("baseprop", JV::str(pr));
		p.hdr = h; return p;
	}
	if (profile == "c02" || profile == "c06") return gen_hostile(profile, seed, opts);
	if (profile == "c12" || profile == "c13") return gen_http(profile, seed, opts);
	if (profile == "c09") return gen_c09(profile, seed, opts);
	if (profile == "c10") return gen_c10(profile, seed, opts);
	if (profile == "c20") return gen_c20(profile, seed, opts);
	if (profile == "c19") return gen_c19(profile, seed, opts);
	return gen_base(profile, seed, opts);
}
