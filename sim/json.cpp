#include "json.h"
#include <cstdio>
#include <cstdlib>
#include <cstring>
#include <cmath>

JV JV::numraw(const std::string &raw) {
	JV j; j.t = Num; j.s = raw; j.d = strtod(raw.c_str(), nullptr); return j;
}

const JV *JV::get(const std::string &k) const {
	if (t != Obj) return nullptr;
	for (auto &kv : o) if (kv.first == k) return &kv.second;
	return nullptr;
}

bool jv_has_nul(const JV &v) {
	if (v.t == JV::Str) return v.s.find('\0') != std::string::npos;
	if (v.t == JV::Arr) { for (auto &x : v.a) if (jv_has_nul(x)) return true; return false; }
	if (v.t == JV::Obj) { for (auto &kv : v.o) if (kv.first.find('\0') != std::string::npos || jv_has_nul(kv.second)) return true; return false; }
	return false;
}

std::string json_escape(const std::string &s) {
	std::string out;
	out.reserve(s.size() + 2);
	for (unsigned char c : s) {
		switch (c) {
		case '"': out += "\\\""; break;
		case '\\': out += "\\\\"; break;
		case '\b': out += "\\b"; break;
		case '\f': out += "\\f"; break;
		case '\n': out += "\\n"; break;
		case '\r': out += "\\r"; break;
		case '\t': out += "\\t"; break;
		default:
			if (c < 0x20) { char buf[8]; snprintf(buf, sizeof buf, "\\u%04x", c); out += buf; }
			else out += (char)c;
		}
	}
	return out;
}

static void dump_num(double d, std::string &out) {
	if (std::isnan(d) || std::isinf(d)) { out += "null"; return; }
	char buf[40];
	if (std::fabs(d) < 1e15 && d == (double)(long long)d) { snprintf(buf, sizeof buf, "%lld", (long long)d); out += buf; return; }
	snprintf(buf, sizeof buf, "%.15g", d);
	if (strtod(buf, nullptr) != d) snprintf(buf, sizeof buf, "%.17g", d);
	out += buf;
}

void JV::dump_to(std::string &out) const {
	switch (t) {
	case Null: out += "null"; break;
	case Bool: out += b ? "true" : "false"; break;
	case Num: if (!s.empty()) out += s; else dump_num(d, out); break;
	case Str: out += '"'; out += json_escape(s); out += '"'; break;
	case Arr:
		out += '[';
		for (size_t i = 0; i < a.size(); i++) { if (i) out += ','; a[i].dump_to(out); }
		out += ']';
		break;
	case Obj:
		out += '{';
		for (size_t i = 0; i < o.size(); i++) {
			if (i) out += ',';
			out += '"'; out += json_escape(o[i].first); out += "\":";
			o[i].second.dump_to(out);
		}
		out += '}';
		break;
	}
}

std::string JV::dump() const { std::string s; dump_to(s); return s; }

namespace {
struct P {
	const char *p; size_t n; size_t i = 0; int depth = 0;
	void ws() { while (i < n && (p[i] == ' ' || p[i] == '\t' || p[i] == '\n' || p[i] == '\r')) i++; }
	bool lit(const char *l) { size_t k = strlen(l); if (i + k <= n && memcmp(p + i, l, k) == 0) { i += k; return true; } return false; }
	static void utf8(unsigned cp, std::string &o) {
		if (cp < 0x80) o += (char)cp;
		else if (cp < 0x800) { o += (char)(0xC0 | (cp >> 6)); o += (char)(0x80 | (cp & 0x3F)); }
		else if (cp < 0x10000) { o += (char)(0xE0 | (cp >> 12)); o += (char)(0x80 | ((cp >> 6) & 0x3F)); o += (char)(0x80 | (cp & 0x3F)); }
		else { o += (char)(0xF0 | (cp >> 18)); o += (char)(0x80 | ((cp >> 12) & 0x3F)); o += (char)(0x80 | ((cp >> 6) & 0x3F)); o += (char)(0x80 | (cp & 0x3F)); }
	}
	bool hex4(unsigned &v) {
		if (i + 4 > n) return false;
		v = 0;
		for (int k = 0; k < 4; k++) {
			char c = p[i + k]; v <<= 4;
			if (c >= '0' && c <= '9') v |= c - '0'; else if (c >= 'a' && c <= 'f') v |= c - 'a' + 10; else if (c >= 'A' && c <= 'F') v |= c - 'A' + 10; else return false;
		}
		i += 4; return true;
	}
	bool str(std::string &out) {
		if (i >= n || p[i] != '"') return false;
		i++;
		while (i < n) {
			unsigned char c = p[i];
			if (c == '"') { i++; return true; }
			if (c == '\\') {
				i++; if (i >= n) return false;
				char e = p[i++];
				switch (e) {
				case '"': out += '"'; break; case '\\': out += '\\'; break; case '/': out += '/'; break;
				case 'b': out += '\b'; break; case 'f': out += '\f'; break; case 'n': out += '\n'; break;
				case 'r': out += '\r'; break; case 't': out += '\t'; break;
				case 'u': {
					unsigned v; if (!hex4(v)) return false;
					if (v >= 0xD800 && v <= 0xDBFF && i + 6 <= n && p[i] == '\\' && p[i + 1] == 'u') {
						size_t save = i; i += 2; unsigned lo;
						if (hex4(lo) && lo >= 0xDC00 && lo <= 0xDFFF) v = 0x10000 + ((v - 0xD800) << 10) + (lo - 0xDC00); else i = save;
					}
					utf8(v, out); break; }
				default: return false;
				}
			} else { if (c < 0x20) return false; out += (char)c; i++; } // raw control characters are not JSON
		}
		return false;
	}
	bool val(JV &v) {
		if (++depth > 200) return false;
		ws();
		if (i >= n) return false;
		bool ok = false;
		char c = p[i];
		if (c == '{') {
			i++; v.t = JV::Obj; ws();
			if (i < n && p[i] == '}') { i++; ok = true; }
			else for (;;) {
				ws(); std::string k; if (!str(k)) break; ws();
				if (i >= n || p[i] != ':') break; i++;
				JV x; if (!val(x)) break; v.o.emplace_back(std::move(k), std::move(x)); ws();
				if (i < n && p[i] == ',') { i++; continue; }
				if (i < n && p[i] == '}') { i++; ok = true; }
				break;
			}
		} else if (c == '[') {
			i++; v.t = JV::Arr; ws();
			if (i < n && p[i] == ']') { i++; ok = true; }
			else for (;;) {
				JV x; if (!val(x)) break; v.a.push_back(std::move(x)); ws();
				if (i < n && p[i] == ',') { i++; continue; }
				if (i < n && p[i] == ']') { i++; ok = true; }
				break;
			}
		} else if (c == '"') { v.t = JV::Str; ok = str(v.s); }
		else if (lit("true")) { v.t = JV::Bool; v.b = true; ok = true; }
		else if (lit("false")) { v.t = JV::Bool; v.b = false; ok = true; }
		else if (lit("null")) { v.t = JV::Null; ok = true; }
		else if (c == '-' || (c >= '0' && c <= '9')) {
			size_t st = i;
			while (i < n && (strchr("+-0123456789.eE", p[i]) != nullptr)) i++;
			std::string num(p + st, i - st);
			char *end = nullptr; double d = strtod(num.c_str(), &end);
			if (end && *end == 0 && !num.empty()) { v.t = JV::Num; v.d = d; ok = true; }
		}
		depth--;
		return ok;
	}
};
}

bool json_parse(const char *p, size_t n, JV &out, size_t *endpos) {
	P ps{p, n};
	out = JV();
	if (!ps.val(out)) return false;
	if (endpos) *endpos = ps.i;
	else { ps.ws(); if (ps.i != n) return false; }
	return true;
}

bool json_parse(const std::string &s, JV &out) { return json_parse(s.data(), s.size(), out, nullptr); }

bool json_equal(const JV &a, const JV &b) {
	if (a.t != b.t) return false;
	switch (a.t) {
	case JV::Null: return true;
	case JV::Bool: return a.b == b.b;
	case JV::Num: return a.d == b.d || (std::isnan(a.d) && std::isnan(b.d));
	case JV::Str: return a.s == b.s;
	case JV::Arr:
		if (a.a.size() != b.a.size()) return false;
		for (size_t i = 0; i < a.a.size(); i++) if (!json_equal(a.a[i], b.a[i])) return false;
		return true;
	case JV::Obj: {
		// compare as maps keyed by first occurrence
		size_t na = 0, nb = 0;
		for (size_t i = 0; i < a.o.size(); i++) {
			bool dup = false; for (size_t j = 0; j < i; j++) if (a.o[j].first == a.o[i].first) dup = true;
			if (dup) continue; na++;
			const JV *x = b.get(a.o[i].first);
			if (!x || !json_equal(a.o[i].second, *x)) return false;
		}
		for (size_t i = 0; i < b.o.size(); i++) {
			bool dup = false; for (size_t j = 0; j < i; j++) if (b.o[j].first == b.o[i].first) dup = true;
			if (!dup) nb++;
		}
		return na == nb; }
	}
	return false;
}
