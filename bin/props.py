# property table (exec'd by bin/check): profiles x variants, budgets, non-triviality rules.
# mix entries: (profile, variant, share).  nontrivial: list of alternatives, each a list of "probe" or "probe>=N" terms.
prop("DEV", mix=[("base", "default", 1.0)], quick_s=20, claims_all=True, rule="dev profile", nontrivial=[])

prop("C01", opts={"memprop": "C01"}, also=["C04/wrong-response", "C04/missing-response", "C11/C01:.*", "C10/.*"],
     mix=[("c01", "default", 3), ("c01", "small", 2), ("c01", "batch1", 1), ("base", "default", 1), ("c11", "wbuf", 1), ("c10", "wbuf", 0.7)],
     quick_mix=[("c01", "default", 2), ("c01", "small", 1), ("c11", "wbuf", 0.7), ("c10", "wbuf", 0.5)],
     quick_s=25, thorough_s=600,
     rule="seeded plans of add/remove/change/fetch/unfetch/connect/disconnect by 2-6 peers on raw, unix and WebSocket transports, random segmentation and event batching; "
          "every frame is matched against the reference model and per-fetch replicas are compared at every quiescent point. non-trivial: at least one fetch received a notification; distinct by trace hash",
     nontrivial=[["notify_add"]],
     required_probes=["add_then_fetch", "notify_change", "notify_remove", "unfetch_with_live_elements", "owner_disconnect_with_subscribers", "multi_message_read"])

prop("C03", opts={"memprop": "C03"}, also=["C14/wrong-deadline", "C14/early-expiry", "C14/no-timeout-answer", "C05/missing-response", "C02/unexpected-response", "C02/missing-response", "C10/.*"],
     mix=[("c03", "default", 3), ("c03", "small", 2), ("c03", "batch1", 1), ("c10", "wbuf", 0.7)],
     quick_mix=[("c03", "default", 2), ("c03", "small", 1), ("c10", "wbuf", 0.5)],
     quick_s=25, thorough_s=600,
     rule="seeded plans of set/call by several callers to several owners with reply policies (result, error, late, never, duplicate, forged), bystander churn and deadline crossings; "
          "non-trivial: at least one routed request reached a final outcome (owner answer, timeout, owner gone); distinct by trace hash",
     nontrivial=[["owner_replied"], ["timed_out"], ["owner_left_with_inflight"]],
     required_probes=["owner_replied", "timed_out", "owner_left_with_inflight", "caller_left_with_inflight", "duplicate_reply", "forged_reply", "reply_unknown_or_late", "self_routed"])

prop("C04", opts={"memprop": "C04", "shadowprop": "C04", "afprop": "C04"}, also=["C03/unexpected-routed-request"],   # a set/call that the namespace rules refuse (method, unknown path, fetch-only state) must not reach an owner

     mix=[("c04", "default", 3), ("c04", "small", 2), ("c04+af", "default", 1.5), ("c15h", "heapcap", 1)],
     quick_mix=[("c04", "default", 2), ("c04", "small", 1), ("c04+af", "default", 1), ("c15h", "heapcap", 0.7)],
     quick_s=25, thorough_s=600,
     rule="seeded sequences of add/remove/change/set/call/get by several peers over a small adversarial path universe, compared after every step with a reference map through responses, "
          "an observer's fetch-all replica and get results; plus the same sequences with 1-4 allocations made to fail (c04+af) and sequences that cross the 96 KB heap cap by ordinary activity (c15h on variant heapcap): after a failed allocation every get result "
          "(and a final get-all by a fresh connection) must equal the reference map with each interrupted request either carried out or not - a request answered with an error must not have changed a value. non-trivial: >=3 notifications and >=1 refused request; distinct by trace hash",
     nontrivial=[["notify_add>=3", "add_existing_path"], ["notify_add>=3", "change_not_owner"], ["notify_add>=3", "remove_not_owner"], ["notify_add>=3", "setcall_wrong_kind"], ["notify_add>=3", "set_on_fetchonly"]],
     required_probes=["add_existing_path", "change_not_owner", "remove_not_owner", "change_on_method", "setcall_wrong_kind", "set_on_fetchonly", "empty_path", "get"])

prop("C05", also=["C07/hygiene/.*", "C01/.*", "C03/.*", "C02/.*", "C04/wrong-response", "C04/missing-response"],   # "...and disturbs nobody else": in runs whose stimulus is the end of connections, the other peers' fetch, routing and response expectations are C05's

     mix=[("c05", "default", 3), ("c05", "small", 1), ("c05", "batch1", 1), ("c11x", "wbuf", 1), ("c11x", "default", 0.5)],
     quick_mix=[("c05", "default", 2), ("c11x", "wbuf", 1)],
     quick_s=25, thorough_s=600, opts={"memprop": "C05"},
     rule="seeded plans that bring a peer into a protocol state (owner with subscribers, fetcher, owner or caller of requests in flight, mid-message) and end its connection by FIN, reset, hang-up or a "
          "protocol violation at a drawn byte; model consequences for everyone else plus descriptor-table and poisoned-arena checks; non-trivial: the ended peer had state others depend on; distinct by trace hash",
     nontrivial=[["owner_disconnect_with_subscribers"], ["peer_left_with_fetches"], ["owner_left_with_inflight"], ["caller_left_with_inflight"]],
     required_probes=["owner_disconnect_with_subscribers", "peer_left_with_fetches", "owner_left_with_inflight", "caller_left_with_inflight", "gone_by_error_event", "client_close:fin", "client_close:rst", "client_close:hup", "message_drops_connection", "truncated_send"])

prop("C14",
     mix=[("c14", "default", 3), ("c14", "batch1", 1), ("c14", "small", 2)],
     quick_mix=[("c14", "default", 2), ("c14", "small", 1)],
     quick_s=25, thorough_s=600, opts={"memprop": "C14"},
     rule="seeded plans of routed requests with request/element/default timeouts (valid, too small, non-numeric), owners answering before, at and after the deadline or never, and event batching that "
          "harvests reply, expiry and disconnects together on a virtual clock; non-trivial: a timer was armed and the request was resolved by reply or expiry; distinct by trace hash",
     nontrivial=[["timer_armed", "timed_out"], ["timer_armed", "owner_replied"]],
     required_probes=["timed_out", "owner_replied", "timer_and_io_same_batch", "timer_and_disconnect_same_batch", "timeout_precedence:request", "timeout_precedence:element", "timeout_precedence:default", "timeout_refused", "expiry_after_resolution"])

prop("C02", opts={"memprop": "C02"}, also=["C03/unexpected-response", "C03/missing-response", "C03/wrong-response", "C05/missing-response", "C14/no-timeout-answer", "C14/unexpected-response", "C10/.*"],
     mix=[("c02", "default", 3), ("c02", "small", 1), ("base", "default", 1), ("base", "batch1", 0.5), ("c03", "default", 1), ("c10", "wbuf", 1)],
     quick_mix=[("c02", "default", 2), ("base", "default", 1), ("c03", "default", 1), ("c10", "wbuf", 0.7)],
     quick_s=25, thorough_s=600,
     rule="(a) hostile JSON-RPC shapes (every method name, missing/mistyped/duplicated members, ids of every JSON type, batches, response objects as requests) checked by a per-connection ledger of outstanding ids; "
          "(b) well-formed traffic checked frame by frame against the reference model, where a batch must behave like its members sent one by one. non-trivial: >=3 requests with id answered; distinct by trace hash",
     nontrivial=[["ledger_response>=3"], ["batch_len>=3"]],
     required_probes=["ledger_response", "no_id_request", "response_as_request", "id_fraction", "id_beyond_int", "batch_len>=3", "routed_seen_by_owner"])

prop("C06", also=["C07/hygiene/.*"], opts={"memprop": "C06"},
     mix=[("c06", "default", 3), ("c06", "small", 2), ("c02", "default", 1), ("c06", "batch1", 1), ("c04", "default", 1), ("c08", "default", 1), ("c01", "small", 0.5), ("c12", "default", 1)],
     quick_mix=[("c06", "default", 2), ("c06", "small", 1), ("c04", "default", 0.7), ("c08", "default", 0.7), ("c12", "default", 0.7)],
     quick_s=25, thorough_s=600,
     rule="structured hostile input (JSON-RPC member shapes, long names, HTTP request lines and headers, WebSocket frames over the whole header space, length prefixes around every limit) and unstructured bytes on all three "
          "endpoints under random segmentation, read caps and event batching; oracle: no sanitizer report, no crash, no hang, descriptor hygiene, canary served afterwards. non-trivial: >=1 message reached the dispatcher or frame parser; distinct by trace hash",
     nontrivial=[["ledger_request"], ["ws_upgraded"], ["drop:length prefix above the maximum"]],
     required_probes=["ws_upgraded", "drop:length prefix above the maximum", "drop:websocket payload above the maximum", "canary_ok", "short_read", "multi_message_read"])

prop("C07", opts={"memprop": "C07"},
     mix=[("c07", "default", 3), ("c07", "small", 2), ("c06", "default", 1.5), ("c06", "small", 1), ("c05", "default", 1), ("c07", "heapcap", 1), ("c07s", "default", 0.5)],
     quick_mix=[("c07", "default", 2), ("c07", "small", 1), ("c06", "default", 1), ("c07s", "default", 0.3)],
     quick_s=30, thorough_s=600,
     rule="connection histories (failed handshakes, every error response, repeated authentication, routing-table overflow, descriptor exhaustion on timer creation and epoll registration, peers vanishing with work in flight) "
          "followed by closing every connection or by SIGTERM between or inside event batches; three independent accountings (daemon's own counters, arena live set, simulated descriptor/timer/epoll tables) are compared with the idle baseline "
          "and with empty at exit; every descriptor system call is validated. non-trivial: a routed request, a failed handshake, a re-authentication or an injected descriptor fault occurred; distinct by trace hash",
     nontrivial=[["timer_armed"], ["reauth_same_user"], ["reauth_other_user"], ["sigterm_mid_plan"], ["sigterm_inside_batch"], ["drop:length prefix above the maximum"], ["ws_upgraded"]],
     required_probes=["timer_armed", "timed_out", "owner_left_with_inflight", "sigterm_mid_plan", "sigterm_inside_batch", "sigterm_with_clients", "idle_baseline_checked", "exit_checked", "routing_table_full", "authenticated"])

prop("C08", opts={"memprop": "C08", "shadowprop": "C08", "afprop": "C08"}, also=["C03/unexpected-routed-request"],   # with credentials loaded, a set/call that reaches an owner although the reference model refuses it was routed without authorisation

     mix=[("c08", "default", 3), ("c08", "localonly", 1.5), ("c08", "small", 1), ("c08+af", "default", 1)],
     quick_mix=[("c08", "default", 2), ("c08", "localonly", 1), ("c08+af", "default", 0.7)],
     quick_s=30, thorough_s=600,
     rule="generated credential files (1-5 users, up to 32 groups, DES/MD5/SHA hashes, page-multiple sizes), element access declarations and sequences of authenticate (right, wrong, repeated, other user, after fetch) / fetch / get / set / call "
          "on raw, unix and WebSocket peers from loopback and foreign origins, with seeded garbage in every fresh allocation; the reference model decides visibility and authorisation; every byte written or logged is scanned for the passwords. "
          "non-trivial: a peer authenticated and at least one access decision was taken; distinct by trace hash",
     nontrivial=[["authenticated", "setcall_unauthorized"], ["authenticated", "setcall_authorized"], ["authenticated", "notify_add"], ["wrong_password_or_user", "notify_add"]],
     required_probes=["authenticated", "wrong_password_or_user", "reauth_other_user", "reauth_same_user", "authenticate_after_fetch", "setcall_unauthorized", "setcall_authorized", "accepted:ws", "accepted:uds"])

prop("C16", opts={"memprop": "C16", "afprop": "C16"},
     mix=[("c16", "default", 3), ("c16", "small", 2), ("c16", "batch1", 0.5), ("c16+af", "default", 1.5)],
     quick_mix=[("c16", "default", 2), ("c16", "small", 1), ("c16+af", "default", 1)],
     quick_s=25, thorough_s=600,
     rule="seeded rule objects (every subset and order of the six matchers, caseInsensitive true/false/absent/mistyped/repeated, operands built around the live paths: empty, equal, proper prefixes, suffixes and infixes, case variants, "
          "non-ASCII, longer than the path; refused shapes: unknown and case-variant names, wrongly typed operands, more than the maximum, no matcher) pushed through all three evaluation sites of the simulated daemon - fetch after the "
          "elements exist, elements added after the fetch, and get - by several peers with random segmentation and batching; the reference matcher decides every notification and get result. "
          "non-trivial: a rule with at least one matcher was evaluated (fetch or get) against existing elements; distinct by trace hash",
     nontrivial=[["matcher:equals:cs", "notify_add"], ["matcher:contains:cs", "notify_add"], ["matcher:startsWith:cs", "notify_add"], ["matcher:endsWith:cs", "notify_add"], ["matcher:equalsNot:cs", "notify_add"], ["matcher:containsAllOf:cs", "notify_add"],
                 ["matcher:equals:ci"], ["matcher:contains:ci"], ["matcher:startsWith:ci"], ["matcher:endsWith:ci"], ["matcher:equalsNot:ci"], ["matcher:containsAllOf:ci"], ["get_with_rule"]],
     required_probes=["matcher:equals:cs", "matcher:equalsNot:cs", "matcher:startsWith:cs", "matcher:endsWith:cs", "matcher:contains:cs", "matcher:containsAllOf:cs",
                      "matcher:equals:ci", "matcher:equalsNot:ci", "matcher:startsWith:ci", "matcher:endsWith:ci", "matcher:contains:ci", "matcher:containsAllOf:ci",
                      "rule_refused", "get_rule_refused", "get_with_rule", "repeated_option_key", "add_then_fetch", "notify_add", "get_selected>=2"])

prop("C13", also=["C05/connection-not-released", "C07/.*"],
     mix=[("c13", "default", 3), ("c13", "small", 1.5), ("c13", "batch1", 0.5), ("c13+af", "default", 1.5)],
     quick_mix=[("c13", "default", 2), ("c13", "small", 1), ("c13+af", "default", 1)],
     quick_s=25, thorough_s=600, opts={"memprop": "C13", "afprop": "C13"},
     rule="seeded HTTP exchanges that are clearly not a valid upgrade (wrong path, method or version, malformed request line or header, over-long line, missing or wrong Upgrade/Connection/key/version headers per RFC 6455 4.2.1, "
          "request corrupted at a drawn byte, request truncated at a drawn byte and then closed by FIN, reset or hang-up) under random segmentation, read caps and batching, next to healthy peers; oracle: never 101, an error status or a close, "
          "peer count never above the number of open connections, heap/arena/descriptors back at baseline once the connections are gone, canary served, clean SIGTERM. non-trivial: an invalid request reached the daemon; distinct by trace hash",
     nontrivial=[["accepted:ws"]],
     required_probes=["http_error_status:400", "http_error_status:404", "truncated_send", "client_close:fin", "client_close:rst", "canary_ok", "idle_baseline_checked", "exit_checked"])

prop("C12", also=["C10/.*", "C07/hygiene/.*"],
     mix=[("c12", "default", 3), ("c12", "small", 1.5), ("c12", "batch1", 0.5), ("c19", "default", 0.7), ("c19", "big", 0.3)],
     quick_mix=[("c12", "default", 2), ("c12", "small", 1), ("c19", "default", 0.5)],
     quick_s=25, thorough_s=600, opts={"memprop": "C12"},
     rule="seeded valid upgrades in many spellings (header order and case, extra and repeated headers, several offered protocols, HTTP/1.1 and above) followed by frame sequences over the header space (every opcode, FIN/RSV/MASK combination, "
          "non-minimal length encodings, payload lengths around 0/125/126, pings and pongs with arbitrary payloads, close frames of every status class with valid and invalid UTF-8 reasons, fragmented data and control frames) mixed with JSON-RPC "
          "traffic of raw and WebSocket peers under random segmentation; oracle: an RFC 6455 expectation table written for the harness (101 + accept digest + subprotocol; server frames unmasked, complete, minimal; pong payload; close status 1002/1007; "
          "close frame before the connection ends; nothing after a close frame) and the same reference model for JSON-RPC on both transports. A share of the runs uses the echo endpoint of sim/c19_harness.c (the real websocket.c with frame callbacks registered, "
          "which the shipped daemon never does): fragmented messages are reassembled there, a FIN continuation frame that continues nothing must be refused with 1002, and on the variant with 70 000-byte messages server frames cross the 16/64-bit length encodings. non-trivial: an upgrade completed and at least one protocol-level frame was judged; distinct by trace hash",
     nontrivial=[["ws_upgraded", "ws_ping"], ["ws_upgraded", "ws_violation_1002"], ["ws_upgraded", "ws_close_valid"], ["ws_upgraded", "ws_violation_1007"], ["ws_upgraded", "ws_fragment"]],
     required_probes=["ws_upgraded", "ws_ping", "ws_pong_matched", "ws_pong_in", "ws_close_valid", "ws_violation_1002", "ws_violation_1007", "ws_violation_1002_or_1007", "ws_fragment", "ws_binary", "ws_close_from_daemon:1002", "ws_close_from_daemon:1007"])

prop("C09", also=["C10/.*"],
     mix=[("c09", "default", 3), ("c09", "small", 2), ("c09", "batch1", 0.5), ("c10", "wbuf", 0.7)],
     quick_mix=[("c09", "default", 2), ("c09", "small", 1), ("c10", "wbuf", 0.5)],
     quick_s=30, thorough_s=600, opts={"memprop": "C09"},
     rule="differential: each seeded plan (1-4 raw, unix and WebSocket connections; well-formed and hostile JSON-RPC, JSON cut short and followed by its completion, zero lengths, messages that exactly fill the read buffer, lengths above the maximum) "
          "is executed twice on the simulated kernel - once with every message delivered whole, one readiness event per batch, and once with the same bytes cut at random (down to single bytes, across length-prefix, message, header-line and frame "
          "boundaries), prefixes of later messages arriving early, read caps, coalesced and permuted event batches and a different garbage fill of fresh memory - while the order of complete messages is preserved; the bytes accepted from the daemon "
          "on every connection and the open/closed state must be identical (heap pointers inside routed ids normalised). non-trivial: the second execution used at least 3 partial deliveries; distinct by the pair of trace hashes",
     nontrivial=[["segmented_send>=3"]],
     required_probes=["segmented_send", "early_prefix_of_next", "short_read", "drop:length prefix above the maximum", "multi_message_read", "ws_upgraded", "routed_seen_by_owner", "canary_ok"])

prop("C10",
     mix=[("c10", "wbuf", 3), ("c10", "small", 2), ("c10", "default", 1.5), ("c10", "batch1", 0.5)],
     quick_mix=[("c10", "wbuf", 2), ("c10", "small", 1), ("c10", "default", 1)],
     quick_s=30, thorough_s=600, opts={"memprop": "C10"},
     rule="seeded workloads that make the daemon emit many frames of many sizes (subscriptions to busy paths, large get results, routed requests and relayed replies) to 1-2 victim connections (raw, unix, WebSocket) whose send path follows a drawn "
          "function: accept k bytes then block, dribble 1-7 bytes per writability event, cap each write, cut inside the 4-byte prefix / the WebSocket header / at iovec boundaries, resume in any amount, fail with EPIPE/ECONNRESET; write buffers of 256, 700 and 5120 bytes. "
          "Oracle at the writev seam, independent of the reference model: (1) the pending buffer the daemon shows on every call equals what the kernel has not yet accepted of what it was offered (or that minus a frame refused as a whole); "
          "(2) the accepted byte stream parses, byte by byte, into a subsequence of the offered frames, in order, each complete (NFA over frame index and offset); (3) a writable, idle connection has no parked or partial output; (4) bounded system calls per event-loop turn. "
          "non-trivial: at least one write was cut short or refused with would-block and output was parked; distinct by trace hash",
     nontrivial=[["fault:short_write", "c10_frame_offered_behind_pending"], ["fault:would_block", "flush_on_writable"]],
     required_probes=["fault:short_write", "fault:would_block", "fault:write_error", "flush_on_writable", "partial_in_prefix", "partial_in_payload", "partial_in_pending", "partial_in_ws_header", "buffer_overflow", "c10_frame_offered_behind_pending", "writable_again", "ws_header_16bit"])

prop("C11", also=["C07/hygiene/.*"],
     mix=[("c11", "wbuf", 3), ("c11", "wsmall", 2), ("c11", "default", 1), ("c11", "batch1", 0.5), ("c11x", "wbuf", 1), ("c11x", "default", 1)],
     quick_mix=[("c11", "wbuf", 2), ("c11", "wsmall", 1), ("c11", "default", 0.5), ("c11x", "wbuf", 0.7)],
     quick_s=30, thorough_s=600, opts={"memprop": "C11"},
     rule="the fetch/route workloads with a drawn subset X of 1-2 peers made faulty - send path stalled until the daemon's buffer for them is full, socket failing on read or write (EPIPE, ECONNRESET, ETIMEDOUT, EHOSTUNREACH), "
          "garbage or over-long input - connected and subscribed before the healthy peers, plus aborted and failed accepts (ECONNABORTED, EMFILE, ENFILE, ENOBUFS, ENOMEM, EPROTO, EINTR) on every listener. "
          "For every peer outside X the reference model's expectations are unchanged: every notification, routed request and relayed reply with the same content, replicas exact at every quiescent point, requests answered exactly once "
          "(result:true or a delivery error where a member of X had to be notified - the effect must be there either way; one error, immediate or at the deadline, for requests routed to a member of X), no healthy connection dropped; "
          "afterwards a fresh client is accepted and served. non-trivial: a fault fired while a healthy peer had expectations; distinct by trace hash",
     nontrivial=[["fault:would_block", "notify_add"], ["fault:write_error", "notify_add"], ["fault:sockerr", "notify_add"], ["fault:accept_failed:103"], ["fault:accept_failed:24"], ["routed_to_faulty_owner"]],
     required_probes=["fault:would_block", "fault:write_error", "fault:sockerr", "fault:stall", "routed_to_faulty_owner", "faulty_peer_dropped_by_daemon", "canary_ok", "notify_change", "owner_replied"])

prop("C15", kind="c15", level="fault_enumeration", corpus=48,
     mix=[("c15", "default", 1), ("c15", "small", 1), ("c15", "wsmall", 1), ("c15", "batch1", 1)],
     quick_mix=[("c15", "default", 1)],
     random_mix=[("base+af", "default", 2), ("c03+af", "default", 1), ("c05+af", "default", 1), ("c01+af", "small", 1), ("c04+af", "batch1", 1), ("c16+af", "default", 0.5), ("c08+af", "default", 1), ("c14+af", "default", 0.5), ("c15h", "heapcap", 3)],
     random_mix_quick=[("base+af", "default", 1), ("c04+af", "default", 1), ("c15h", "heapcap", 1.5)],
     random_quick_s=25, random_thorough_s=500,
     quick_s=100, thorough_s=1800,
     rule="fault enumeration: a fixed corpus of 48 short scenarios (two of them authenticate / passwd sequences with the credential file loaded; 40 of 4-14 operations each, drawn once from the base, fetch, routing, connection-end, access-control, WebSocket, HTTP, matcher, deadline and namespace generators: every request type, "
          "raw/unix/WebSocket connect and teardown, failed handshakes, routed requests with reply, timeout and disconnects, batches, authentication) is executed once to count its allocations N, then once for every k in 1..N with exactly the k-th "
          "allocation (malloc/calloc/realloc of the daemon, cJSON and zlib included) returning NULL. Oracle: no sanitizer report or crash; start-up failures end in a clean non-zero exit; until the fault the reference model, afterwards at most one response "
          "per request id and none unsolicited; requests sent after the fault's event-loop turn are answered; a fresh client is served at the end; arena, accounted heap, peer count and descriptors are back at the idle baseline after all connections closed and empty at exit. "
          "after the failure every get result, and a final get-all by a fresh connection, must equal the reference model's element image with each interrupted request either carried out or not (forked model, sim/world_shadow.cpp). "
          "quick: the whole corpus with every k on the upstream configuration; thorough: the whole corpus on four configuration variants (table sizes, buffer sizes, event-batch size). Second phase (25 s quick, 500 s thorough): random multi-fault runs "
          "(base/c01/c03/c04/c05/c16 plans with 1-4 failing allocations at drawn distances after start-up) and heap-cap runs (variant heapcap, 96 KB: a filler connection takes 55-98 % of the heap, ordinary traffic crosses the cap; the daemon's own refusal is handled like an injected failure). "
          "non-trivial: the failed allocation was reached; a case is a (scenario, k) pair",
     level_text="single-fault enumeration: for each of 48 corpus scenarios every allocation performed during the run is made to fail in turn (exhaustive for the corpus when the budget suffices; the evidence says whether it did); the daemon's real main() runs on the simulated kernel with the deterministic arena as the fault seam",
     technique="deterministic simulation with fault injection: exhaustive single-allocation-failure enumeration over a scenario corpus, arena allocator as the seam, ledger/model oracles, exact replay",
     nontrivial=[])

prop("C20", kind="c20", level="fault_enumeration",
     mix=[("c20", "default", 1), ("c20", "batch1", 1), ("c20", "big", 0.7)],
     quick_mix=[("c20", "default", 1), ("c20", "big", 0.3)],
     quick_s=40, thorough_s=600, quick_scenarios=500, thorough_scenarios=6000,
     rule="seeded scenarios: credential files with plain, admin, read-only and password-less users (DES, MD5, SHA-256/512 hashes), 1-3 connections on raw/unix/WebSocket transports issuing authenticate (right, wrong, unknown user) and passwd "
          "(own account, other account, unknown, read-only) requests, each change followed by authentications with the old and the new password; the reference model decides every response (who may change what; new password works, old does not). "
          "For every password change of every scenario: (1) the credential file after every completed file-system call, three torn variants of every write to it, and the image a loss of power would leave (only fsync'ed data) are each given to a "
          "FRESH daemon (second real main() with -p on that image) which must start and accept exactly the old or exactly the new credential set (exactly the new one once the change was acknowledged); (2) the scenario is re-run with that "
          "file-system call failing with EIO, ENOSPC and, for writes, short counts of 1 byte, half and all-but-one: the request must be answered with success or error, later authentications must agree with that answer, and all images of that run are judged as in (1). "
          "non-trivial: a distinct file image judged by a fresh daemon or a run in which the injected fault fired; a case is a (scenario, change, call, image-or-outcome) tuple",
     level_text="fault enumeration per password change: every crash point between its file-system calls (plus torn writes and a power-loss view) and every error / short-write outcome of each call, each judged by starting a fresh real daemon on the resulting file; authorisation and effect decided by the reference model; exhaustive for the scenarios executed",
     technique="deterministic simulation with fault injection: simulated file system with a durable view, crash-point and fault-outcome enumeration, fresh-daemon reload oracle, reference model for authorisation",
     nontrivial=[])

prop("C19", also=["C07/hygiene/.*"],
     mix=[("c19", "default", 3), ("c19", "small", 1), ("c19", "batch1", 1), ("c19", "big", 1), ("c19+af", "default", 1.5)],
     quick_mix=[("c19", "default", 3), ("c19", "big", 1), ("c19+af", "default", 1.5)],
     quick_s=30, thorough_s=600, opts={"memprop": "C19"},
     rule="two endpoints over the simulated transport: an independent client (system zlib raw deflate/inflate, own RFC 7692 negotiation checker) and the real websocket.c + compression.c + bundled zlib behind a small echo harness started with compression level 1-3 "
          "(the shipped main() never enables compression; main.c and linux_io.c are replaced by sim/c19_harness.c). Seeded: extension offers (any subset, order and spelling of the four parameters, legal and illegal values, several offers, none), "
          "message sequences (context takeover makes the stream stateful) with empty, 1-3 byte, incompressible, highly repetitive (inflating far beyond the message limit) and JSON-like payloads, text and binary, compressed and plain, "
          "fragment-size sequences, transport segmentation and read caps, bit flips / truncation / junk in the compressed bytes in transit. Oracle: the negotiation response is legal for one of the offers; every echoed message inflates to exactly what was sent, "
          "in order; nothing unsolicited; valid traffic never ends the connection; no sanitizer or arena report (the module's malloc/realloc/free go through the poisoned arena); baseline and clean exit afterwards. "
          "non-trivial: the extension was negotiated and a compressed message made the round trip, or a damaged stream was injected; distinct by trace hash",
     nontrivial=[["c19_negotiated", "c19_roundtrip_ok"], ["c19_negotiated", "fault:corrupt_compressed_stream:flip"], ["c19_negotiated", "fault:corrupt_compressed_stream:trunc"], ["c19_negotiated", "fault:corrupt_compressed_stream:junk"]],
     stub_extra="; for C19 additionally posix/main.c and linux/linux_io.c (replaced by sim/c19_harness.c, an echo endpoint that calls init_http_connection2 with the drawn compression level)",
     required_probes=["c19_negotiated", "c19_roundtrip_ok", "c19_compressed_message_received", "c19_fragmented_message", "c19_empty_message", "c19_param:server_no_context_takeover", "c19_param:client_no_context_takeover", "c19_param:server_max_window_bits", "c19_not_negotiated"])
