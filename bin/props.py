# property table (exec'd by bin/check): profiles x variants, budgets, non-triviality rules
prop("DEV", mix=[("base", "default", 1.0)], quick_s=20, claims_all=True, rule="dev profile", nontrivial=[])
