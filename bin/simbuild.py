#!/usr/bin/env python3
"""Build cjetsim for a variant from the current working tree of the repository (content-addressed cache)."""
import hashlib, os, re, subprocess, sys, shutil, json
from concurrent.futures import ThreadPoolExecutor

VERIF = os.path.dirname(os.path.dirname(os.path.abspath(__file__)))
SIM = os.path.join(VERIF, "sim")
BUILD = os.environ.get("CJETSIM_BUILD", os.path.join(VERIF, "build"))

VARIANTS = {
    #            msg   wbuf  elem rout epoll fetch match heapkb  localonly
    "default":   (512, 5120, 13,  6,   10,   4,    12,   20480,  False),
    "small":     (160, 256,  3,   2,   2,    1,    3,    20480,  False),
    "batch1":    (512, 5120, 13,  6,   1,    4,    12,   20480,  False),
    "heapcap":   (512, 5120, 6,   3,   4,    2,    12,   96,     False),
    "localonly": (512, 5120, 13,  6,   10,   4,    12,   20480,  True),
    "wbuf":      (512, 700,  13,  6,   4,    4,    12,   20480,  False),
    "wsmall":    (160, 256,  13,  6,   3,    2,    12,   20480,  False),
    "big":       (70000, 140000, 13, 6, 10,  4,    12,   20480,  False),
}

SIM_SYMS = """accept accept4 bind calloc close daemon epoll_create epoll_create1 epoll_ctl epoll_wait epoll_pwait
fcntl fopen free freeaddrinfo ftruncate fsync fdatasync getaddrinfo getpwnam getsockname listen lseek malloc mmap munmap open read
realloc realpath recv rename send sendmsg setgid setsockopt setuid shutdown sigaction signal socket syslog vsyslog openlog closelog
timerfd_create timerfd_settime unlink write writev clock_gettime open64 creat fstat fchmod fchown""".split()

PURE_OK = set("""__assert_fail __ctype_b_loc __ctype_tolower_loc __ctype_toupper_loc __errno_location __isoc99_sscanf bcmp memcmp memcpy memmove memset
crypt fclose fread fprintf fputs fwrite getopt optarg optind opterr in6addr_any in6addr_loopback memchr memmem snprintf sprintf stderr stdout strcasecmp strcasestr strcat
strchr strrchr strcmp strcpy strerror strlen strncasecmp strncmp strncpy strstr strtod strtoul strtol strtoull vsnprintf isspace tolower toupper
htons ntohs htonl ntohl abort exit printf puts putchar __stack_chk_fail strnlen strdup strndup qsort bsearch floor ceil fabs pow sqrt round lround
__isoc99_vsscanf sscanf __memcpy_chk __memset_chk __strcpy_chk __snprintf_chk __vsnprintf_chk __sprintf_chk __fprintf_chk __strcat_chk __strncpy_chk __fread_chk""".split())

COV = ["-fprofile-instr-generate", "-fcoverage-mapping"] if os.environ.get("CJETSIM_COV") else []   # reach measurement only (bin/covreport), never used by a check
CFLAGS = COV + ["-O1", "-g", "-fsanitize=address,undefined", "-fsanitize=float-cast-overflow", "-fno-sanitize-recover=all", "-fno-omit-frame-pointer", "-fno-common"]


def sh(cmd, **kw):
    r = subprocess.run(cmd, stdout=subprocess.PIPE, stderr=subprocess.STDOUT, text=True, **kw)
    if r.returncode != 0:
        raise RuntimeError("command failed: %s\n%s" % (" ".join(cmd), r.stdout))
    return r.stdout


def file_lists(repo):
    txt = open(os.path.join(repo, "src", "CMakeLists.txt")).read()
    out = {}
    for name in ("CJET_FILES", "CJET_LINUX_FILES", "CJET_POSIX_FILES", "CJET_ZLIB_FILES"):
        m = re.search(r"SET\s*\(\s*%s\s+([^)]*)\)" % name, txt)
        out[name] = m.group(1).split() if m else []
    return out


def tree_hash(repo, extra):
    h = hashlib.sha256()
    src = os.path.join(repo, "src")
    for root, dirs, files in sorted(os.walk(src)):
        dirs.sort()
        if "/tests" in root or "autobahn" in root:
            continue
        for f in sorted(files):
            if f.endswith((".c", ".h", ".in", ".txt")) or f == "cjet_version":
                p = os.path.join(root, f)
                h.update(os.path.relpath(p, src).encode()); h.update(b"\0")
                h.update(open(p, "rb").read()); h.update(b"\0")
    for root, dirs, files in sorted(os.walk(SIM)):
        for f in sorted(files):
            if f.endswith((".cpp", ".h", ".c")):
                h.update(f.encode()); h.update(open(os.path.join(root, f), "rb").read())
    h.update(open(os.path.abspath(__file__), "rb").read())
    h.update(repr(extra).encode())
    return h.hexdigest()[:20]


def gen_headers(repo, gdir, v):
    msg, wbuf, elem, rout, epoll, fetch, match, heap, local = v
    vals = {
        "CONFIG_JET_PORT": "11122", "CONFIG_JETWS_PORT": "11123", "CONFIG_LISTEN_BACKLOG": "40",
        "CONFIG_MAX_MESSAGE_SIZE": str(msg), "CONFIG_MAX_WRITE_BUFFER_SIZE": str(wbuf), "CONFIG_ELEMENT_TABLE_ORDER": str(elem),
        "CONFIG_ROUTING_TABLE_ORDER": str(rout), "CONFIG_INITIAL_FETCH_TABLE_SIZE": str(fetch), "CONFIG_ROUTED_MESSAGES_TIMEOUT": "5.0",
        "CONFIG_MAX_NUMBERS_OF_MATCHERS_IN_FETCH": str(match), "CONFIG_ALLOW_ADD_ONLY_FROM_LOCALHOST": "true" if local else "false",
        "CONFIG_MAX_HEAPSIZE_IN_KBYTE": str(heap), "CONFIG_MAX_EPOLL_EVENTS": str(epoll), "CONFIG_UDS_FILE": "/var/run/jet.socket",
        "WEBSOCKET_PATH": "/api/jet/", "CJET_VERSION": open(os.path.join(repo, "src", "cjet_version")).read().strip(), "CJET_LAST": "-sim",
        "PROJECT_NAME": "cjet",
    }
    os.makedirs(os.path.join(gdir, "generated"), exist_ok=True)
    for tmpl, out in (("linux/config/os_config.h.in", "os_config.h"), ("cjet_config.h.in", "cjet_config.h"), ("version.h.in", "version.h")):
        t = open(os.path.join(repo, "src", tmpl)).read()
        t = re.sub(r"\$\{(\w+)\}", lambda m: vals.get(m.group(1), ""), t)
        t = re.sub(r"@(\w+)@", lambda m: vals.get(m.group(1), ""), t)
        open(os.path.join(gdir, "generated", out), "w").write(t)


def build(variant="default", repo=None, plain=False, quiet=True, c19=False):
    repo = repo or os.environ.get("CJET_REPO", "/repo")
    v = VARIANTS[variant]
    key = tree_hash(repo, (variant, v, CFLAGS, plain, c19))
    bdir = os.path.join(BUILD, "%s%s-%s" % (variant, "-c19" if c19 else "", key))
    exe = os.path.join(bdir, "cjetsim")
    if os.path.exists(exe):
        return exe
    tmp = bdir + ".tmp%d" % os.getpid()
    shutil.rmtree(tmp, ignore_errors=True)
    os.makedirs(os.path.join(tmp, "obj"))
    gen_headers(repo, tmp, v)
    lists = file_lists(repo)
    src = os.path.join(repo, "src")
    jobs = []
    skip = set(["posix/main.c", "linux/linux_io.c"]) if c19 else set()
    for group, defs in (("CJET_FILES", ["-std=gnu99"]), ("CJET_LINUX_FILES", ["-D_GNU_SOURCE", "-std=gnu99"]), ("CJET_POSIX_FILES", ["-D_XOPEN_SOURCE=500", "-D_DEFAULT_SOURCE", "-std=gnu99"]), ("CJET_ZLIB_FILES", ["-DNO_GZIP", "-std=gnu99"])):
        for f in lists[group]:
            if f in skip:
                continue
            o = os.path.join(tmp, "obj", f.replace("/", "_") + ".o")
            # bundled zlib hands memcpy a NULL source together with length 0 (stored block of an empty input): harmless, third-party, not what is being verified
            extra = ["-fno-sanitize=nonnull-attribute"] if group == "CJET_ZLIB_FILES" else []
            jobs.append((["clang", "-c"] + CFLAGS + extra + defs + ["-w", "-I" + src, "-I" + tmp, os.path.join(src, f), "-o", o], o, group))
    if c19:
        o = os.path.join(tmp, "obj", "c19_harness.o")
        jobs.append((["clang", "-c"] + CFLAGS + ["-D_GNU_SOURCE", "-std=gnu99", "-w", "-I" + src, "-I" + tmp, os.path.join(SIM, "c19_harness.c"), "-o", o], o, "C19_HARNESS"))
    simsrcs = [f for f in sorted(os.listdir(SIM)) if f.endswith(".cpp")]
    simobjs = []
    for f in simsrcs:
        o = os.path.join(tmp, "obj", "sim_" + f + ".o")
        simobjs.append(o)
        jobs.append((["clang++", "-c", "-std=c++17", "-O1", "-g", "-fsanitize=address,undefined", "-fno-omit-frame-pointer", "-Wall", "-Wno-unused-function", "-I" + SIM, os.path.join(SIM, f), "-o", o], o, "SIM"))
    msg, wbuf, elem, rout, epoll, fetch, match, heap, local = v
    open(os.path.join(tmp, "variant.cpp"), "w").write(
        '#include "world.h"\nconst VariantCfg g_variant = {"%s", %d, %d, %d, %d, %d, %d, %d, %dL, %s, 5.0};\n' % (variant, msg, wbuf, elem, rout, epoll, fetch, match, heap, "true" if local else "false"))
    vo = os.path.join(tmp, "obj", "variant.o")
    jobs.append((["clang++", "-c", "-std=c++17", "-O1", "-g", "-fsanitize=address,undefined", "-I" + SIM, os.path.join(tmp, "variant.cpp"), "-o", vo], vo, "SIM"))
    simobjs.append(vo)
    with ThreadPoolExecutor(max_workers=16) as ex:
        list(ex.map(lambda j: sh(j[0]), jobs))
    dobjs = [j[1] for j in jobs if j[2] != "SIM"]
    zobjs = [j[1] for j in jobs if j[2] == "CJET_ZLIB_FILES"]
    redef = ["main cjet_main"] + ["%s sim_%s" % (s, s) for s in SIM_SYMS]
    zsyms = set()
    for o in zobjs:
        for line in sh(["nm", "--defined-only", "-g", o]).splitlines():
            p = line.split()
            if len(p) == 3:
                zsyms.add(p[2])
    redef += ["%s cjz_%s" % (s, s) for s in sorted(zsyms)]
    rf = os.path.join(tmp, "redef.syms")
    open(rf, "w").write("\n".join(redef) + "\n")
    for o in dobjs:
        sh(["objcopy", "--redefine-syms=" + rf, o])
    # what is still undefined must be pure libc or defined by another daemon object
    defined, undefined = set(), set()
    for o in dobjs:
        for line in sh(["nm", o]).splitlines():
            p = line.split()
            if len(p) == 2 and p[0] == "U":
                undefined.add(p[1])
            elif len(p) == 3 and p[1] in "TDBRCVWtdbr":
                defined.add(p[2])
    unmodelled = sorted(s for s in undefined - defined if not s.startswith(("sim_", "__asan", "__ubsan", "__sanitizer", "cjz_")) and s not in PURE_OK)
    libs = ["-lcrypt", "-lm", "-lz"]
    sh(["clang++", "-fsanitize=address,undefined"] + COV[:1] + ["-o", os.path.join(tmp, "cjetsim")] + dobjs + simobjs + libs)
    json.dump({"variant": variant, "unmodelled_symbols": unmodelled, "repo": repo, "key": key}, open(os.path.join(tmp, "build.json"), "w"))
    shutil.rmtree(os.path.join(tmp, "obj"), ignore_errors=True)
    os.makedirs(BUILD, exist_ok=True)
    try:
        os.rename(tmp, bdir)
    except OSError:
        shutil.rmtree(tmp, ignore_errors=True)
    # drop stale builds of the same variant
    for d in os.listdir(BUILD):
        if d.startswith(variant + ("-c19-" if c19 else "-")) and os.path.join(BUILD, d) != bdir and ".tmp" not in d and (c19 or "-c19-" not in d):
            shutil.rmtree(os.path.join(BUILD, d), ignore_errors=True)
    return exe


if __name__ == "__main__":
    vs = sys.argv[1:] or ["default"]
    for v in vs:
        print(build(v))
